#!/venv/bin/python
"""Generates MANIFEST.json from one place (so it stays valid and consistent)."""
import json
import os
import sys

HERE = os.path.dirname(os.path.abspath(__file__))

NA = {
    "C01": "pure function of the input string: complete absolute dates never use the clock value; no schedule, clock, fault or history to simulate (its one seam-touching clause, epoch in TIMEZONE='local', is exercised by C12's timestamp inputs)",
    "C02": "totality over strings x valid settings with the reference time passed as RELATIVE_BASE: a pure input-space property, no schedule/clock/crash/history in it; raising inputs are used only as failure faults inside C03 histories",
    "C05": "walk over every locale's month/weekday vocabulary with RELATIVE_BASE given: table enumeration, nothing a simulator decides; statement does not define the zone of a default reference, so a clock-route oracle would demand more than stated",
    "C06": "two calls under the same given reference time compared with each other (locale phrase vs English canon): pure function of input",
    "C07": "pure function of digits, DATE_ORDER and locale; no nondeterminism or fault surface",
    "C08": "reference date is an argument (RELATIVE_BASE) as the property observes it; its quantifier excludes the one clock-only path; zone of the default reference is unstated, so no sound clock oracle (observations recorded in DESIGN section 6)",
    "C09": "same as C08: pure function of (string, RELATIVE_BASE, settings) as observed; default-reference zone unstated (observations in DESIGN section 6)",
    "C11": "walk over the timezone table; pickling/copying a result involves no fault or interleaving",
    "C13": "relations between calls with different arguments; explicitly excludes the stateful try_previous_locales; pure",
    "C15": "calendar conversion enumerated against a converter on full dates; clock value unused",
    "C16": "regeneration diff of shipped data files (needs ruamel.yaml, absent); no run-time behaviour; its tz-cache clause is checked as invariant I2 of C19 on the untouched shipped file",
    "C17": "totality/well-formedness over texts x languages: pure; concurrent searches are a C20 pair and searches inside histories are C03 operations",
    "C18": "relation between two calls on rewritten inputs (whitespace/digit script): pure function of input",
}

CHECKS = {
    "C19": {
        "level": ("fault_enumeration", "Every cut point of the single cache write is a state; the thorough tier enumerates all N-1 byte prefixes of the shipped cache (plus missing/empty/unreadable content, prefixes of a rebuilt file, both BUILD_TZ_CACHE modes), each followed by two real imports in a fresh process; quick samples structural + seeded cut points. Seeded op-level schedules of 2-3 importers over a simulated disk with crash / torn-write / ENOSPC / EIO injection cover the concurrent-import clause; real interpreter launches (plain, -O, -B, first import on a worker thread, importer ending with os._exit) validate the in-process import; and a real interpreter is killed in the middle of its cache write (seeded cut) before real imports follow, so that whatever a dead writer leaves behind is produced by the tree under test itself.", "4.2 and 0"),
        "note": "Trusted: a crash/full disk/racing reader leaves a byte prefix of a single writer's stream; tmpfs scratch copy behaves like an installed package; bit flips and multi-writer mixed content are outside the listed states (counted, not judged). Layer b samples schedules, it does not enumerate them.",
        "technique": "deterministic simulation: state-based crash-point enumeration of the cache file + seeded simulated-disk scheduler with fault injection",
        "engine": "simdisk",
    },
    "C14": {
        "level": ("exploration", "Seeded simulation of the system clock and process zone under the custom-format parser: formats x datetimes x languages rendered by the harness, clock placed on year/month/day boundaries, frozen or ticking per read, 11 process zones, year-less %j formats, a RELATIVE_BASE given (must be irrelevant); independent oracle for what the format expresses plus clock-derived fields in the process zone.", "4.7"),
        "note": "Samples inputs and clock placements; an enumerating checker would be stronger on the input-only round-trip clause. Oracle trusts its own strftime-free renderer, the calendar module and pytz for the local fields of the simulated instant; 'current' means the process-local date.",
        "technique": "deterministic simulation: simulated clock (frozen / per-read ticks / boundary placement) and process zone, seeded workload, independent oracle",
        "engine": "clockworld",
    },
    "C10": {
        "level": ("exploration", "Absolute clause R0 (a strict result only if some token of the harness-generated string can carry each demanded part) plus relational check under pairs of distant simulated clocks and process zones: strict result is None or equals the non-strict result in the same world; a non-None strict result (and each REQUIRE_PARTS part) is identical under both clocks and both RELATIVE_BASE values, for absolute / custom-format / timestamp parsers, partial dates generated from every subset of {day, month, year, weekday, time} in languages drawn from the tree's data, plus the multilingual strings of the tree's own test tables (R1-R3 only) and aware reference times with output-zone settings.", "4.5"),
        "note": "R0 is judged only in single-reading pipelines (one language, one parser); R1 value changes in multi-reading pipelines that are explained by a single reading of the same pipeline are a recorded known finding (known_findings.json). Samples strings/languages; two clocks per case.",
        "technique": "deterministic simulation: paired simulated clocks/zones, metamorphic relations across worlds",
        "engine": "clockworld",
    },
    "C04": {
        "level": ("exploration", "Relative phrases evaluated with the base coming from the simulated clock expressed in TIMEZONE (and from RELATIVE_BASE while the clock is skewed elsewhere), clock placed on month ends / leap days / year ends / range limits, frozen or ticking; compared with independent calendar arithmetic (no dateutil).", "4.4"),
        "note": "Samples; DST-crossing cases in DST zones compared on wall clock only (statement does not choose). An enumerating checker would be stronger on the pure-arithmetic clauses.",
        "technique": "deterministic simulation: simulated clock + process zone as source of the base, clock skew vs RELATIVE_BASE, independent arithmetic oracle",
        "engine": "clockworld",
    },
    "C12": {
        "level": ("exploration", "Simulated process zone (TZ) and clock drive TIMEZONE='local' and the relative/timestamp parsers whose instant is known a priori; pytz as independent zone database checks instant preservation, target offset and awareness for absolute / relative (durations, clock times in the phrase, own zone in the phrase, clock route and aware RELATIVE_BASE route) / timestamp / custom-format (with and without %z) inputs over seeded zone pairs, equal pairs included.", "4.6"),
        "note": "pytz tzdata is shared with the library (its code and abbreviation table are not). Years 1950..2037. Gap/ambiguous local times rejected by the generator.",
        "technique": "deterministic simulation: simulated process zone and clock, seeded zone pairs, pytz instant oracle",
        "engine": "clockworld",
    },
    "C03": {
        "level": ("exploration", "Seeded call histories (parse / DateDataParser slots / search_dates / calendars / failing calls / cache-limit pressure / regex purges / restarts; contrast-mode settings variants and scenario templates T1-T12: live instance x equal settings dict, in-parser exceptions, tl date order, regional vocabulary, detection callback, reused settings dict, time-zone suffixes, the same digits through the Jalali/Hijri/Gregorian parsers, permuted language lists, equal-instant aware RELATIVE_BASE values) run in a fresh process under a frozen simulated clock; every call's outcome is compared with the same call made alone in a fresh process under another hash seed; caller-owned dicts/lists compared before/after. Failing histories are ddmin-minimised and replayed.", "4.1"),
        "note": "Samples histories (length <= 40); oracle says nothing about correctness of an answer, only about history independence.",
        "technique": "deterministic simulation: seeded operation histories with failure/cache-pressure/restart faults against a memoryless fresh-process reference model",
        "engine": "history",
    },
    "C20": {
        "level": ("exploration", "Real threads under a baton-passing scheduler with sys.settrace line events as pre-emption points: for ordered pairs (A,B) one pre-emption of A at an executed library line, B runs to completion, A resumes (both directions); quick covers every distinct source line once per pair, thorough every dynamic step plus seeded k<=3-switch and 3-thread schedules. Besides the hand-picked pair pool, pairs are drawn from the seeded call generator of C03 (both calls from one generated history); a third of the schedules run on raw _thread threads unknown to the threading module. Outcomes must equal one of the two sequential orders in a fresh process.", "4.3"),
        "note": "Line-level pre-emption under the GIL; no switches inside foreign critical sections or import machinery (under-approximation: may miss, never invents).",
        "technique": "deterministic simulation: controlled thread scheduler (baton-passed real threads, traced pre-emption points), linearizability against sequential runs",
        "engine": "sched",
    },
}

BUILT = [l.strip() for l in open(os.path.join(HERE, "BUILT")).read().split() if l.strip()]

PENDING_REASON = "not yet claimed in this revision: the simulation check designed in DESIGN.md section 4 is still under construction"

BASELINE = "cd /repo && /venv/bin/python -m pytest -ra -q -p no:cacheprovider --timeout=900 --continue-on-collection-errors"


def main():
    checks = []
    for pid in sorted(BUILT):
        c = CHECKS[pid]
        checks.append({
            "property_id": pid,
            "quick_cmd": "./check %s --tier quick" % pid,
            "thorough_cmd": "./check %s --tier thorough" % pid,
            "evidence_file": "/verif/evidence/%s.json" % pid,
            "replay_cmd_template": "./check %s --replay {path}" % pid,
            "engine": c["engine"],
            "level_claimed": {"category": c["level"][0], "text": c["level"][1], "design_ref": "DESIGN.md section " + c["level"][2]},
            "level_note": c["note"],
            "technique": c["technique"],
        })
    na = [{"property_id": k, "reason": v} for k, v in sorted(NA.items())]
    for pid in sorted(CHECKS):
        if pid not in BUILT:
            na.append({"property_id": pid, "reason": PENDING_REASON})
    na.sort(key=lambda x: x["property_id"])
    m = {
        "version": 1,
        "setup_cmd": "/venv/bin/python -c \"import regex, pytz, tzlocal, dateutil, hijridate, convertdate; print('deps ok')\"",
        "hooks": {
            "guard": "DATEPARSER_VERIF",
            "enable": "no hooks are needed: seams are the module-level datetime name (clock), TZ (zone), builtins/os file functions (disk), sys.settrace (schedule) and the process boundary (history); checks run /repo's working tree as is",
            "baseline_off_cmd": BASELINE,
            "source_commits": [],
            "add_only": True,
        },
        "engines": [
            {"name": "simdisk", "path": "checks/c19_crash.py, checks/c19_simdisk.py", "serves_properties": ["C19"], "kind_free_text": "crash-state enumeration of the cache file + seeded scheduler over an in-memory disk with fault injection"},
            {"name": "clockworld", "path": "simkit/world.py", "serves_properties": ["C04", "C10", "C12", "C14"], "kind_free_text": "simulated system clock (frozen/tick/script) and process time zone installed at the module-level datetime seam"},
            {"name": "history", "path": "checks/c03_history.py", "serves_properties": ["C03"], "kind_free_text": "seeded call histories in fresh forked processes vs memoryless reference"},
            {"name": "sched", "path": "checks/c20_sched.py", "serves_properties": ["C20"], "kind_free_text": "baton-passing thread scheduler with traced pre-emption points"},
        ],
        "checks": checks,
        "not_applicable": na,
        "notes": "Technique: deterministic simulation with fault injection. One seed (VERIF_SEED) decides every run; every leaf run is a fresh process forked from a pristine template (simkit/farm.py). Known findings: /verif/known_findings.json. Exit 2 + 'HARNESS ...' = harness trouble, never a verdict.",
    }
    with open(os.path.join(HERE, "MANIFEST.json"), "w") as f:
        json.dump(m, f, indent=1)
        f.write("\n")
    try:
        import jsonschema

        jsonschema.validate(m, json.load(open("/root/.vp/MANIFEST.schema.json")))
        print("MANIFEST.json valid;", len(checks), "checks,", len(na), "not_applicable")
    except ImportError:
        print("written (jsonschema not available to validate)")


if __name__ == "__main__":
    main()
