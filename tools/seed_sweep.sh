#!/bin/bash
# False-alarm sweep on the unchanged tree: every quick check under several seeds must exit 0.
# usage: tools/seed_sweep.sh [seed ...]   (default 1 2 3 4 5)
cd "$(dirname "$0")/.." || exit 2
SEEDS=${*:-1 2 3 4 5}
bad=0
for s in $SEEDS; do
  for c in C14 C04 C12 C10 C19 C03 C20; do
    out=$(VERIF_EVIDENCE_SCRATCH=1 ./check $c --tier quick --seed $s 2>&1 | tail -1 | cut -c1-200)
    echo "seed=$s $out"
    case "$out" in *"exit=0"*) ;; *) bad=1 ;; esac
  done
done
exit $bad
