#!/venv/bin/python
"""Run the quick check of the property each seeded change breaks against that change
(scratch worktree, removed afterwards) and report DETECTED / MISSED.
usage: tools/run_seeded.py [seeded-id ...] [--tier quick|thorough]"""
import json
import os
import subprocess
import sys

VERIF = os.path.dirname(os.path.dirname(os.path.abspath(__file__)))


def main():
    args = [a for a in sys.argv[1:] if not a.startswith("--")]
    tier = "thorough" if "--tier=thorough" in sys.argv else "quick"
    ids = args or sorted(os.listdir(os.path.join(VERIF, "seeded")))
    rows = []
    for sid in ids:
        d = os.path.join(VERIF, "seeded", sid)
        if not os.path.isdir(d):
            continue
        prop = sid.split("-")[0]
        try:
            prop = json.load(open(os.path.join(d, "meta.json"))).get("check_with", prop)
        except Exception:
            pass
        r = subprocess.run([os.path.join(VERIF, "tools", "with_patch.sh"), os.path.join(d, "patch.diff"), os.path.join(VERIF, "check"), prop, "--tier", tier], capture_output=True, text=True, cwd=VERIF)
        lines = r.stdout.splitlines()
        viol = [l for l in lines if l.startswith("VIOLATION")]
        har = [l for l in lines if l.startswith("HARNESS")]
        summary = lines[-1] if lines else ""
        first = ""
        for i, l in enumerate(lines):
            if l.startswith("VIOLATION") and i + 1 < len(lines):
                first = lines[i + 1].strip()[:260]
                break
        rows.append({"id": sid, "result": "DETECTED" if viol else "MISSED", "violations": len(viol), "harness": len(har), "exit": r.returncode, "first": first, "summary": summary[:200]})
        print(json.dumps(rows[-1]))
        sys.stdout.flush()
    print()
    for r in rows:
        print("%-8s %-9s exit=%d violations=%d harness=%d" % (r["id"], r["result"], r["exit"], r["violations"], r["harness"]))


if __name__ == "__main__":
    main()
