#!/bin/bash
# usage: tools/with_patch.sh <patch.diff> <command...>
# Runs <command> with VERIF_REPO pointing at a scratch worktree of /repo HEAD with the patch applied;
# removes the worktree afterwards.  Nothing under /repo is modified.
set -u
PATCH=$(readlink -f "$1"); shift
D=$(mktemp -d /tmp/verif-mut-XXXXXX)
rmdir "$D"
git -C /repo worktree add -q --detach "$D" HEAD || exit 3
cleanup() { git -C /repo worktree remove --force "$D" >/dev/null 2>&1; rm -rf "$D"; git -C /repo worktree prune; }
trap cleanup EXIT
if ! git -C "$D" apply "$PATCH"; then echo "PATCH DOES NOT APPLY"; exit 3; fi
VERIF_REPO="$D" "$@"
