#!/venv/bin/python
"""False-alarm control: apply each behaviour-preserving refactoring (a patch that keeps the
public behaviour and passes the suite) to a scratch worktree and run EVERY quick check on it.
All checks must stay silent (exit 0, no VIOLATION); exit 2 (HARNESS) is reported separately.
usage: tools/run_refactors.py <dir-with-*.diff> [check ids...]"""
import glob
import json
import os
import subprocess
import sys

VERIF = os.path.dirname(os.path.dirname(os.path.abspath(__file__)))
ALL = ["C14", "C04", "C12", "C10", "C19", "C03", "C20"]


def main():
    d = sys.argv[1]
    checks = sys.argv[2:] or ALL
    rows = []
    for patch in sorted(glob.glob(os.path.join(d, "*.diff"))):
        for c in checks:
            r = subprocess.run([os.path.join(VERIF, "tools", "with_patch.sh"), patch, os.path.join(VERIF, "check"), c, "--tier", "quick"], capture_output=True, text=True, cwd=VERIF)
            lines = r.stdout.splitlines()
            viol = [l for l in lines if l.startswith("VIOLATION")]
            har = [l for l in lines if l.startswith("HARNESS")]
            first = ""
            for i, l in enumerate(lines):
                if l.startswith(("VIOLATION", "HARNESS")):
                    first = (lines[i + 1].strip() if l.startswith("VIOLATION") and i + 1 < len(lines) else l)[:300]
                    break
            verdict = "silent" if r.returncode == 0 and not viol else ("FALSE-ALARM" if viol else "harness(exit %d)" % r.returncode)
            if "PATCH DOES NOT APPLY" in r.stdout:
                verdict = "patch-does-not-apply"
            rows.append({"patch": os.path.basename(patch), "check": c, "verdict": verdict, "exit": r.returncode, "first": first})
            print(json.dumps(rows[-1]))
            sys.stdout.flush()
    print()
    for r in rows:
        print("%-28s %-4s %s" % (r["patch"], r["check"], r["verdict"]))


if __name__ == "__main__":
    main()
