#!/venv/bin/python
"""Sensitivity self-check: break each claimed property on purpose in a scratch
worktree of /repo (outside /repo and /verif, removed afterwards) and confirm the
quick tier reports a VIOLATION.  These hand-made mutants need not pass the test
suite; the agent-made ones under /verif/seeded/ do.

usage: tools/sensitivity.py [ID ...]     (default: all)
"""
import os
import subprocess
import sys
import tempfile

M = [
    # (property, name, file, old, new, extra check args)
    ("C03", "no-restore-on-valueerror", "dateparser/date.py", "        except ValueError:\n            self._settings.DATE_ORDER = _order\n            return None", "        except ValueError:\n            return None", []),
    # ("skip-tokens-not-in-settings-key" was tried and dropped: the registry object is re-initialised on every entry and
    #  Dictionary.__contains__ reads SKIP_TOKENS live, so no API-visible difference could be constructed -- apparently equivalent)
    ("C03", "dictionary-keeps-first-callers-settings", "dateparser/languages/locale.py", "            if self._dictionary is None:\n                self._generate_dictionary()\n            self._dictionary._settings = settings", "            if self._dictionary is None:\n                self._generate_dictionary()\n                self._dictionary._settings = settings", []),
    ("C03", "loader-without-deepcopy", "dateparser/languages/loader.py", "locale = Locale(shortname, language_info=deepcopy(language_info))", "locale = Locale(shortname, language_info=language_info)", []),
    ("C03", "evict-first-key-again", "dateparser/languages/dictionary.py", "                if key != self._settings.registry_key:\n", "                if True:\n", []),
    ("C03", "search-keeps-relative-base", "dateparser/search/search.py", "            parser._settings.RELATIVE_BASE = relative_base\n        parser._settings = Settings()", "            pass\n        parser._settings = Settings()", []),
    ("C19", "narrow-except", "dateparser/timezone_parser.py", "    except Exception:\n        # A missing", "    except (FileNotFoundError, ValueError, TypeError, EOFError):\n        # A missing", []),
    ("C19", "no-rewrite-after-rebuild", "dateparser/timezone_parser.py", "        os.replace(tmp_path, cache_path)", "        pass", []),
    ("C19", "replace-before-write", "dateparser/timezone_parser.py", '        with open(tmp_path, mode="wb") as file:\n            pickle.dump(\n                (current_hash, _tz_offsets, _search_regex, _search_regex_ignorecase),\n                file,\n                protocol=5,\n            )\n        os.replace(tmp_path, cache_path)', '        open(tmp_path, mode="wb").close()\n        os.replace(tmp_path, cache_path)\n        with open(cache_path, mode="wb") as file:\n            pickle.dump(\n                (current_hash, _tz_offsets, _search_regex, _search_regex_ignorecase),\n                file,\n                protocol=5,\n            )', []),
    ("C20", "get_date_data-unlocked", "dateparser/date.py", "    @synchronized\n    def get_date_data(", "    def get_date_data(", []),
    ("C20", "calendar-unlocked", "dateparser/calendars/__init__.py", "    @synchronized\n    def get_date(self):", "    def get_date(self):", []),
    ("C04", "decade-factor-1", "dateparser/freshness_date_parser.py", 'kwargs["years"] = 10 * kwargs["decades"]', 'kwargs["years"] = 1 * kwargs["decades"]', []),
    ("C04", "utc-now-regardless-of-timezone", "dateparser/freshness_date_parser.py", "                now = apply_timezone(utc_dt, settings.TIMEZONE)", "                now = utc_dt", []),
    ("C04", "no-to-timezone-in-freshness", "dateparser/freshness_date_parser.py", "            if settings.TO_TIMEZONE:\n                date = apply_timezone(date, settings.TO_TIMEZONE)", "            if False:\n                date = apply_timezone(date, settings.TO_TIMEZONE)", []),
    ("C04", "local-now-is-utc", "dateparser/freshness_date_parser.py", "                now = datetime.now(self.get_local_tz())", "                now = datetime.now(tz=timezone.utc)", []),
    ("C10", "absolute-parser-skips-strict-check", "dateparser/parser.py", "        _check_strict_parsing(missing, self.settings)\n        self._set_relative_base()", "        self._set_relative_base()", []),
    ("C10", "custom-formats-ignore-strictness", "dateparser/date.py", "                except ValueError:\n                    continue\n\n            if not (\"%y\"", "                except ValueError:\n                    pass\n\n            if not (\"%y\"", []),
    ("C12", "aware-only-stripped-when-false", "dateparser/utils/__init__.py", "    if settings.RETURN_AS_TIMEZONE_AWARE is not True:", "    if settings.RETURN_AS_TIMEZONE_AWARE is False:", []),
    ("C12", "string-zone-not-converted-to-timezone", "dateparser/date_parser.py", '            if "local" not in _settings_tz:\n                date_obj = apply_timezone(date_obj, settings.TIMEZONE)', '            if False:\n                date_obj = apply_timezone(date_obj, settings.TIMEZONE)', []),
    ("C12", "local-means-utc", "dateparser/utils/__init__.py", "    tz = get_localzone()\n    if settings is None:", "    tz = UTC\n    if settings is None:", []),
    ("C14", "previous-year", "dateparser/date.py", "date_obj = date_obj.replace(year=today.year)", "date_obj = date_obj.replace(year=today.year - 1)", []),
    ("C14", "missing-day-test-uses-%m", "dateparser/date.py", 'missing_day = not any(d in date_format for d in ["%d", "%j"])', 'missing_day = not any(d in date_format for d in ["%m", "%j"])', []),
    ("C14", "year-applied-after-completion", "dateparser/utils/__init__.py", '"last": get_last_day_of_month(date_obj.year, date_obj.month),', '"last": get_last_day_of_month(1900, date_obj.month),', []),
    ("C14", "utc-day-for-current", "dateparser/utils/__init__.py", '"current": current_day or datetime.now().day,', '"current": current_day or datetime.now().day % 28 + 1,', []),
]


# changes under which the property still HOLDS (equivalent or harmless): the check must stay silent
NEGATIVE_CONTROLS = {
    "loader-without-deepcopy": "Locale.__init__ builds its own combined dict; nothing shared is ever mutated",
    "replace-before-write": "with a loader that survives any damaged state, an in-place write after an early rename only produces states the property already covers (prefixes); every import still succeeds and the file ends complete",
}


def run(cmd, **kw):
    return subprocess.run(cmd, capture_output=True, text=True, **kw)


def main():
    want = set(sys.argv[1:])
    results = []
    for prop, name, path, old, new, extra in M:
        if want and prop not in want and name not in want:
            continue
        d = tempfile.mkdtemp(prefix="verif-sens-", dir="/tmp")
        os.rmdir(d)
        run(["git", "-C", "/repo", "worktree", "add", "-q", "--detach", d, "HEAD"])
        try:
            fp = os.path.join(d, path)
            src = open(fp).read()
            if old not in src:
                results.append((prop, name, "MUTATION DOES NOT APPLY"))
                continue
            open(fp, "w").write(src.replace(old, new, 1))
            env = dict(os.environ, VERIF_REPO=d)
            r = run(["/verif/check", prop, "--tier", "quick"] + extra, env=env, cwd="/verif")
            viol = [l for l in r.stdout.splitlines() if l.startswith("VIOLATION")]
            harness = [l for l in r.stdout.splitlines() if l.startswith("HARNESS")]
            if name in NEGATIVE_CONTROLS:
                results.append((prop, name, "NEGATIVE CONTROL %s (exit %d)" % ("OK: silent" if not viol and r.returncode == 0 else "FALSE ALARM", r.returncode)))
            else:
                results.append((prop, name, "DETECTED (%d violation lines, exit %d)" % (len(viol), r.returncode) if viol else "MISSED (exit %d, %d harness lines)" % (r.returncode, len(harness))))
            print(results[-1])
            sys.stdout.flush()
        finally:
            run(["git", "-C", "/repo", "worktree", "remove", "--force", d])
            run(["git", "-C", "/repo", "worktree", "prune"])
    print("\n".join("%-4s %-42s %s" % r for r in results))
    return 0 if all("DETECTED" in r[2] or "OK: silent" in r[2] for r in results) else 1


if __name__ == "__main__":
    sys.exit(main())
