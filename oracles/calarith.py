"""Independent calendar arithmetic for relative phrases (no dateutil)."""
import calendar
import datetime as dt


def _month_shift(b, months):
    """b shifted by a whole number of months, clamped to the last valid day; None if out of range."""
    idx = b.year * 12 + (b.month - 1) + months
    y, m0 = divmod(idx, 12)
    m = m0 + 1
    if not (1 <= y <= 9999):
        return None
    d = min(b.day, calendar.monthrange(y, m)[1])
    return b.replace(year=y, month=m, day=d)


def shift_all(b, units, sign):
    """All results the statement allows for base b, and the set of carry classes met.

    units: {'decade'|'year'|'month'|'week'|'day'|'hour'|'minute'|'second': count}
    sign:  -1 for 'ago', +1 for 'in'
    """
    info = set()
    years = units.get("year", 0) + 10 * units.get("decade", 0)
    months = units.get("month", 0)
    td = dt.timedelta(
        weeks=units.get("week", 0), days=units.get("day", 0), hours=units.get("hour", 0),
        minutes=units.get("minute", 0), seconds=units.get("second", 0),
    )
    starts = set()
    joint = _month_shift(b, sign * (12 * years + months))
    starts.add(joint)
    # "several units in one phrase add up": years, decades and months are one shift of
    # 12*y + m months, clamped once.  (The design-phase relaxation that also accepted clamping
    # year and month steps one after the other was dropped: it hid a change that applies the
    # units one at a time, e.g. 2020-02-29 minus "1 year 1 month" = 2019-01-29, not 01-28.)
    out = set()
    for s in starts:
        if s is None:
            out.add(None)
            info.add("overflow")
            continue
        if s.day != b.day:
            info.add("clamped")
        if (years or months) and s.year != b.year:
            info.add("year_rollover")
        try:
            r = s + sign * td
        except OverflowError:
            out.add(None)
            info.add("overflow")
            continue
        if td and (r.month != s.month):
            info.add("month_carry")
        if td and r.day != s.day and not (units.get("day") or units.get("week")):
            info.add("day_carry")
        out.add(r)
    return out, info


def period_of(units):
    """Finest of week, month, year the phrase counts, provided it counts no days; else 'day'."""
    if "day" in units:
        return "day"
    if "week" in units:
        return "week"
    if "month" in units:
        return "month"
    if "year" in units or "decade" in units:
        return "year"
    return "day"
