"""The simulated world: system clock and process time zone.

Clock seam: every attribute of a loaded ``dateparser*`` module whose value *is*
the real ``datetime.datetime`` class is replaced by ``SimDateTime``, a stand-in
whose ``now/today/utcnow`` read the simulated clock.  Constructing it yields
real ``datetime`` objects and ``isinstance(x, SimDateTime)`` answers for the
real class, so nothing of the stand-in leaks into results.

Zone seam: ``TZ`` + ``time.tzset()`` + ``tzlocal.reload_localzone()``.
"""
import datetime as _dt
import os
import sys
import time as _time

REAL = _dt.datetime
_EPOCH = REAL(1970, 1, 1, tzinfo=_dt.timezone.utc)
_EPOCH_NAIVE = REAL(1970, 1, 1)


def to_us(dt_utc_naive):
    d = dt_utc_naive - _EPOCH_NAIVE
    return (d.days * 86400 + d.seconds) * 1000000 + d.microseconds


def from_us(us):
    return _EPOCH_NAIVE + _dt.timedelta(microseconds=us)


class Clock:
    """Virtual UTC instant, microsecond resolution.

    policy: ('frozen',) | ('tick', delta_us) | ('script', [us, us, ...]) where the
    script gives the instant returned by the i-th read (last one repeats).
    """

    def __init__(self, us, policy=("frozen",)):
        self.us = us
        self.policy = tuple(policy)
        self.reads = []  # (site, us) -- logging draws no randomness, reads no real clock
        self.nread = 0

    def set(self, us, policy=None):
        self.us = us
        if policy is not None:
            self.policy = tuple(policy)
        self.nread = 0

    def read(self, site):
        kind = self.policy[0]
        if kind == "script":
            seq = self.policy[1]
            us = seq[min(self.nread, len(seq) - 1)]
            self.us = us
        else:
            us = self.us
            if kind == "tick":
                self.us = us + self.policy[1]
        self.nread += 1
        self.reads.append((site, us))
        return us


_clock = None


def clock():
    return _clock


def _site():
    f = sys._getframe(2)
    return "%s:%d" % (os.path.basename(f.f_code.co_filename), f.f_lineno)


def local_naive(us):
    """Naive local time of the simulated instant, through the C library's zone
    rules -- exactly what a real naive datetime.now() would consult."""
    sec, micro = divmod(us, 1000000)
    return REAL.fromtimestamp(sec).replace(microsecond=micro)


class _Meta(type):
    def __instancecheck__(cls, obj):
        return isinstance(obj, REAL)

    def __subclasscheck__(cls, sub):
        return issubclass(sub, REAL)


class SimDateTime(REAL, metaclass=_Meta):
    def __new__(cls, *a, **k):
        return REAL(*a, **k)

    @classmethod
    def now(cls, tz=None):
        us = _clock.read(_site())
        if tz is None:
            return local_naive(us)
        return (_EPOCH + _dt.timedelta(microseconds=us)).astimezone(tz)

    @classmethod
    def today(cls):
        us = _clock.read(_site())
        return local_naive(us)

    @classmethod
    def utcnow(cls):
        us = _clock.read(_site())
        return from_us(us)

    # classmethod constructors of the C type call cls(...) -> REAL via __new__,
    # but route them explicitly so results are plain datetimes in any case.
    @classmethod
    def fromtimestamp(cls, *a, **k):
        return REAL.fromtimestamp(*a, **k)

    @classmethod
    def utcfromtimestamp(cls, *a, **k):
        return REAL.utcfromtimestamp(*a, **k)

    @classmethod
    def strptime(cls, *a, **k):
        return REAL.strptime(*a, **k)

    @classmethod
    def combine(cls, *a, **k):
        return REAL.combine(*a, **k)

    @classmethod
    def fromisoformat(cls, *a, **k):
        return REAL.fromisoformat(*a, **k)

    @classmethod
    def fromordinal(cls, *a, **k):
        return REAL.fromordinal(*a, **k)


class _MetaD(type):
    def __instancecheck__(cls, obj):
        return isinstance(obj, _dt.date)

    def __subclasscheck__(cls, sub):
        return issubclass(sub, _dt.date)


class SimDate(_dt.date, metaclass=_MetaD):
    """Stand-in for `from datetime import date` (date.today() reads the simulated clock)."""

    def __new__(cls, *a, **k):
        return _dt.date(*a, **k)

    @classmethod
    def today(cls):
        us = _clock.read(_site())
        return local_naive(us).date()

    @classmethod
    def fromtimestamp(cls, *a, **k):
        return _dt.date.fromtimestamp(*a, **k)

    @classmethod
    def fromordinal(cls, *a, **k):
        return _dt.date.fromordinal(*a, **k)

    @classmethod
    def fromisoformat(cls, *a, **k):
        return _dt.date.fromisoformat(*a, **k)


SimDateTime.min = REAL.min
SimDateTime.max = REAL.max
SimDateTime.resolution = REAL.resolution

_patched_count = -1
_dt_proxy = None
_time_proxy = None


def _proxies():
    """Stand-ins for the `datetime` and `time` *modules*, for code that does
    `import datetime` / `import time` and calls datetime.datetime.now() / time.time()."""
    global _dt_proxy, _time_proxy
    if _dt_proxy is None:
        import types

        m = types.ModuleType("datetime")
        m.__dict__.update({k: v for k, v in _dt.__dict__.items() if not k.startswith("__")})
        m.datetime = SimDateTime
        m.date = SimDate
        _dt_proxy = m
        t = types.ModuleType("time")
        t.__dict__.update({k: v for k, v in _time.__dict__.items() if not k.startswith("__")})

        def sim_time():
            return _clock.read(_site_here()) / 1e6

        def sim_time_ns():
            return _clock.read(_site_here()) * 1000

        def sim_localtime(secs=None):
            if secs is None:
                secs = _clock.read(_site_here()) // 1000000
            return _time.localtime(secs)

        def sim_gmtime(secs=None):
            if secs is None:
                secs = _clock.read(_site_here()) // 1000000
            return _time.gmtime(secs)

        t.time, t.time_ns, t.localtime, t.gmtime = sim_time, sim_time_ns, sim_localtime, sim_gmtime
        _time_proxy = t
    return _dt_proxy, _time_proxy


def _site_here():
    f = sys._getframe(2)
    return "%s:%d" % (os.path.basename(f.f_code.co_filename), f.f_lineno)


def install(us=0, policy=("frozen",)):
    """Install the simulated clock into every loaded dateparser module."""
    global _clock
    _clock = Clock(us, policy)
    refresh(force=True)
    return _clock


def refresh(force=False):
    """(Re-)patch after lazy imports.  Cheap when nothing new was imported."""
    global _patched_count
    n = len(sys.modules)
    if not force and n == _patched_count:
        return 0
    hits = 0
    for name, mod in list(sys.modules.items()):
        if mod is None or not (name == "dateparser" or name.startswith("dateparser.")):
            continue
        if ".data.date_translation_data." in name:
            continue
        d = getattr(mod, "__dict__", None)
        if not d:
            continue
        dtp, tp = _proxies()
        for k, v in list(d.items()):
            if v is REAL:
                d[k] = SimDateTime
                hits += 1
            elif v is _dt:
                d[k] = dtp
                hits += 1
            elif v is _time:
                d[k] = tp
                hits += 1
            elif v is _dt.date:
                d[k] = SimDate
                hits += 1
            elif v is _time.time:
                d[k] = tp.time
                hits += 1
            elif v is _time.time_ns:
                d[k] = tp.time_ns
                hits += 1
            elif v is _time.localtime:
                d[k] = tp.localtime
                hits += 1
            elif v is _time.gmtime:
                d[k] = tp.gmtime
                hits += 1
    _patched_count = len(sys.modules)
    return hits


def patched_sites():
    out = []
    for name, mod in sorted(sys.modules.items()):
        if mod is None or not (name == "dateparser" or name.startswith("dateparser.")):
            continue
        for k, v in list(getattr(mod, "__dict__", {}).items()):
            if v is SimDateTime:
                out.append("%s.%s" % (name, k))
    return out


def set_zone(tz):
    """Process zone: TZ + tzset + tzlocal cache reload."""
    os.environ["TZ"] = tz
    _time.tzset()
    import tzlocal

    tzlocal.reload_localzone()


ZONE_POOL = [
    "UTC",
    "America/New_York",
    "Europe/London",
    "Asia/Kolkata",
    "Asia/Kathmandu",
    "Asia/Tokyo",
    "America/Phoenix",
    "Pacific/Kiritimati",
    "Pacific/Pago_Pago",
    "Australia/Lord_Howe",
    "America/St_Johns",
]


class LeakAudit:
    """sys.setprofile watcher: a real clock read issued directly from a dateparser
    frame while the world is installed means a seam was bypassed."""

    NAMES = {"now", "today", "utcnow", "time", "time_ns", "localtime", "gmtime"}

    def __init__(self, repo_dir):
        self.prefix = os.path.join(repo_dir, "dateparser") + os.sep
        self.hits = []

    def _prof(self, frame, event, arg):
        if event == "c_call":
            name = getattr(arg, "__name__", "")
            if name in self.NAMES and frame.f_code.co_filename.startswith(self.prefix):
                owner = getattr(arg, "__self__", None)
                if owner is REAL or owner is _time or owner is _dt.date or (isinstance(owner, type) and issubclass(owner, _dt.date) and owner not in (SimDateTime, SimDate)):
                    self.hits.append("%s:%d %s" % (os.path.basename(frame.f_code.co_filename), frame.f_lineno, name))

    def __enter__(self):
        sys.setprofile(self._prof)
        return self

    def __exit__(self, *a):
        sys.setprofile(None)
