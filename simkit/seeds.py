import hashlib
import os
import random


def base_seed(default):
    v = os.environ.get("VERIF_SEED")
    if v is None or v == "":
        return default
    return int(v)


def rng_for(seed, prop, run, salt=""):
    """One integer decides everything: every run derives its PRNG from
    (VERIF_SEED, property, run index) only."""
    h = hashlib.sha256(("%d:%s:%s:%s" % (seed, prop, run, salt)).encode()).digest()
    return random.Random(int.from_bytes(h[:16], "big"))


def digest(obj):
    import json

    return hashlib.sha256(
        json.dumps(obj, sort_keys=True, default=repr, ensure_ascii=True).encode()
    ).hexdigest()[:16]
