"""Seam probe: before a clock-dependent check judges anything, a fresh leaf makes
a handful of representative calls under the leak audit.  A real clock read
issued from a dateparser frame means the clock seam is bypassed on this tree
(e.g. a new import style): runs would not replay and outcomes would depend on
the wall clock, so the check must answer HARNESS (exit 2), never VIOLATION."""
from . import env, world

CALLS = [
    ("parse", ("2 hours ago",), {"languages": ["en"]}),
    ("parse", ("in 3 days",), {"languages": ["en"], "settings": {"TIMEZONE": "Asia/Tokyo", "TO_TIMEZONE": "UTC"}}),
    ("parse", ("10:15",), {"languages": ["en"], "date_formats": ["%H:%M"]}),
    ("parse", ("March",), {"languages": ["en"]}),
    ("parse", ("12 March",), {"languages": ["en"], "settings": {"PREFER_DATES_FROM": "future"}}),
    ("parse", ("Monday",), {"languages": ["en"]}),
    ("parse", ("1425995415",), {"languages": ["en"]}),
    ("parse", ("hier",), {"languages": ["fr"]}),
    ("search", ("on 3 March and yesterday",), {"languages": ["en"]}),
    ("jalali", ("02/03",), {}),
]


def probe(p):
    env.setup_path()
    import dateparser

    world.install(1425995415000000)
    world.set_zone(p.get("zone", "Asia/Tokyo"))
    from dateparser.calendars.jalali import JalaliCalendar
    from dateparser.search import search_dates

    world.refresh(force=True)
    hits = []
    with world.LeakAudit(env.repo_dir()) as la:
        for kind, a, kw in CALLS:
            try:
                if kind == "parse":
                    dateparser.parse(*a, **kw)
                elif kind == "search":
                    search_dates(*a, **kw)
                else:
                    JalaliCalendar(*a).get_date()
            except Exception:  # noqa
                pass
    hits = sorted(set(la.hits))
    return {"leaks": hits, "reads": len(world.clock().reads), "patched": world.patched_sites()}


def guard(farm, rep):
    """Returns True if the seam holds; otherwise records a harness error."""
    st, val = farm.call("simkit.seamprobe:probe", {}, 300)
    if st != "ok":
        rep.harness_error("seam probe failed: %s %s" % (st, str(val)[-300:]))
        return False
    if val["leaks"]:
        rep.harness_error("unsimulated-clock-read %s (the clock seam is bypassed on this tree; no verdict)" % val["leaks"][:6])
        return False
    return True
