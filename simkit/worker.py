"""Template worker process.

Started by simkit.farm as ``python -B simkit/worker.py <rfd> <wfd>`` with an
explicit PYTHONHASHSEED.  It imports the tree under test once (the *pristine
template*: dateparser imported, no API call ever made here) and then, for every
task it receives, forks a leaf child that runs the task function and sends its
result back.  One task = one fresh process.

Frames on both pipes: 4-byte big-endian length + pickle.
"""
import importlib
import os
import pickle
import select
import signal
import struct
import sys
import time
import traceback

sys.path.insert(0, os.path.dirname(os.path.dirname(os.path.abspath(__file__))))
from simkit import env  # noqa: E402


def read_frame(fd):
    hdr = b""
    while len(hdr) < 4:
        chunk = os.read(fd, 4 - len(hdr))
        if not chunk:
            return None
        hdr += chunk
    (n,) = struct.unpack(">I", hdr)
    buf = bytearray()
    while len(buf) < n:
        chunk = os.read(fd, min(1 << 20, n - len(buf)))
        if not chunk:
            return None
        buf += chunk
    return pickle.loads(bytes(buf))


def write_frame(fd, obj):
    data = pickle.dumps(obj, protocol=4)
    data = struct.pack(">I", len(data)) + data
    view = memoryview(data)
    while view:
        n = os.write(fd, view)
        view = view[n:]


def resolve(func_path):
    mod, name = func_path.split(":")
    return getattr(importlib.import_module(mod), name)


def run_leaf(func_path, payload, wfd, timeout):
    """Body of the leaf child.  Never returns."""
    try:
        import faulthandler

        faulthandler.enable(file=sys.stderr)
        if timeout:
            faulthandler.dump_traceback_later(max(1.0, timeout - 0.5), exit=False, file=sys.stderr)
        func = resolve(func_path)
        res = ("ok", func(payload))
    except BaseException:
        res = ("harness_exc", traceback.format_exc())
    try:
        write_frame(wfd, res)
    except BaseException:
        try:
            write_frame(wfd, ("harness_exc", "unpicklable result: " + traceback.format_exc()))
        except BaseException:
            pass
    os._exit(0)


def main():
    rfd, wfd = int(sys.argv[1]), int(sys.argv[2])
    template = os.environ.get("VERIF_TEMPLATE", "plain")
    env.setup_path()
    pre = [importlib.import_module(m) for m in filter(None, os.environ.get("VERIF_PREIMPORT", "").split(","))]
    if template != "none":
        import dateparser  # noqa: F401  (pristine template: import only)
    for m in pre:
        if hasattr(m, "after_import"):
            m.after_import()
    if template == "search":
        import dateparser.search  # noqa: F401
    preload = os.environ.get("VERIF_PRELOAD", "")
    for m in filter(None, preload.split(",")):
        importlib.import_module(m)
    write_frame(wfd, ("ready", os.getpid()))
    while True:
        task = read_frame(rfd)
        if task is None:
            break
        func_path, payload, timeout = task
        pr, pw = os.pipe()
        pid = os.fork()
        if pid == 0:
            os.close(pr)
            os.close(rfd)
            run_leaf(func_path, payload, pw, timeout)
        os.close(pw)
        deadline = time.monotonic() + timeout if timeout else None
        result = None
        try:
            # wait for first byte or timeout
            while True:
                left = None if deadline is None else max(0.0, deadline - time.monotonic())
                r, _, _ = select.select([pr], [], [], left)
                if r:
                    result = read_frame(pr)
                    if result is None:
                        result = ("died", "leaf closed pipe without a result")
                    break
                result = ("timeout", "leaf exceeded %.1fs" % timeout)
                break
        finally:
            os.close(pr)
            if result is not None and result[0] == "timeout":
                try:
                    os.kill(pid, signal.SIGKILL)
                except ProcessLookupError:
                    pass
            _, status = os.waitpid(pid, 0)
            if result is not None and result[0] == "died":
                result = ("died", "leaf exit status %r" % (status,))
        write_frame(wfd, result)


if __name__ == "__main__":
    main()
