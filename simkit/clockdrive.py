"""Generic driver for the clock / process-zone checks (C04, C10, C12, C14).

A check module provides:
  PROP, LEVEL
  Context(rng, tier)               per-run world draw (zone, language pools, ...)
  gen_case(rng, ctx) -> case       JSON-able, self-contained (zone, clock, call)
  eval_case(case) -> dict(ok, key, sig, detail, stats, reads, outcome)
  RULE, ASSUMPTIONS, describe(case) (optional)
One run = one fresh leaf process executing `ncases` cases.  A failing case is
re-run *alone* in a fresh leaf (attribution rule): only if it reproduces there
is it a violation of this property; otherwise it is a history effect.
"""
import importlib
import json
import time
from collections import Counter

from . import env, report, seeds, world
from .farm import Farm


def leaf_batch(p):
    mod = importlib.import_module(p["module"])
    env.setup_path()
    import dateparser  # noqa: F401

    world.install()
    rng = seeds.rng_for(p["seed"], mod.PROP, p["run"])
    ctx = mod.Context(rng, p["tier"])
    out = {"n": 0, "fails": [], "keys": set(), "stats": Counter(), "samples": [], "reads": 0, "clock_min": None, "clock_max": None, "zones": Counter()}
    audit = None
    if p.get("audit"):
        audit = world.LeakAudit(env.repo_dir())
        audit.__enter__()
    log = []
    try:
        for i in range(p["ncases"]):
            case = mod.gen_case(rng, ctx)
            r = mod.eval_case(case)
            out["n"] += 1
            out["stats"].update(r.get("stats", {}))
            out["reads"] += r.get("reads", 0)
            out["zones"][case.get("zone", "?")] += 1
            us = case.get("clock_us")
            if us is not None:
                out["clock_min"] = us if out["clock_min"] is None else min(out["clock_min"], us)
                out["clock_max"] = us if out["clock_max"] is None else max(out["clock_max"], us)
            if r.get("key") is not None:
                out["keys"].add(r["key"])
            log.append((case, r.get("outcome")))
            if not r["ok"]:
                if len(out["fails"]) < 40:
                    out["fails"].append({"case": case, "sig": r["sig"], "detail": r["detail"], "index": i})
            elif len(out["samples"]) < 2 and r.get("key") is not None:
                out["samples"].append({"case": case, "outcome": r.get("outcome"), "expected": r.get("expected")})
    finally:
        if audit is not None:
            audit.__exit__(None, None, None)
            out["leaks"] = audit.hits[:10]
    out["digest"] = seeds.digest(log)
    out["keys"] = sorted(out["keys"])
    out["stats"] = dict(out["stats"])
    out["zones"] = dict(out["zones"])
    return out


def leaf_single(p):
    mod = importlib.import_module(p["module"])
    env.setup_path()
    import dateparser  # noqa: F401

    world.install()
    return mod.eval_case(p["case"])


def drive(mod, args, nruns, ncases, seed_default, preload=()):
    tier = args.tier
    seed = seeds.base_seed(seed_default)
    rep = report.Reporter(mod.PROP, tier, seed, mod.LEVEL)
    modname = mod.__name__
    if args.replay:
        with open(args.replay) as f:
            rp = json.load(f)
        with Farm(n=1, preload=[modname]) as farm:
            st, val = farm.call("simkit.clockdrive:leaf_single", {"module": modname, "case": rp["case"]}, 300)
        if st != "ok":
            print("HARNESS replay leaf %s: %s" % (st, val))
            return 2
        print(json.dumps({"case": rp["case"], "ok": val["ok"], "sig": val.get("sig"), "detail": val.get("detail"), "outcome": val.get("outcome"), "expected": val.get("expected")}, indent=1, default=repr))
        if not val["ok"]:
            print("VIOLATION property=%s replay=%s" % (mod.PROP, args.replay))
            return 1
        print("replay: no violation")
        return 0
    if args.runs is not None:
        nruns = args.runs
    t0 = time.time()
    payloads = [{"module": modname, "seed": seed, "run": r, "ncases": ncases, "tier": tier, "audit": (r % 50 == 7)} for r in range(nruns)]
    agg = {"n": 0, "keys": set(), "stats": Counter(), "reads": 0, "zones": Counter(), "clock_min": None, "clock_max": None}
    samples = []
    fails = []
    budget = args.budget
    with Farm(preload=[modname]) as farm:
        from . import seamprobe

        if not seamprobe.guard(farm, rep):
            return rep.finish({"evaluations": 0, "distinct_nontrivial": 0, "rule": mod.RULE, "samples": []}, mod.ASSUMPTIONS)

        def on_result(i, res):
            if budget and time.time() - t0 > budget:
                return False
        results = farm.map("simkit.clockdrive:leaf_batch", payloads, timeout=900, on_result=on_result)
        done = 0
        digests = {}
        for p, res in zip(payloads, results):
            if res is None:
                continue  # budget cut
            st, val = res
            if st != "ok":
                rep.harness_error("run %d: %s %s" % (p["run"], st, str(val)[-500:]))
                continue
            done += 1
            digests[p["run"]] = val["digest"]
            agg["n"] += val["n"]
            agg["keys"].update(tuple(k) if isinstance(k, list) else k for k in val["keys"])
            agg["stats"].update(val["stats"])
            agg["reads"] += val["reads"]
            agg["zones"].update(val["zones"])
            for k, f in (("clock_min", min), ("clock_max", max)):
                if val[k] is not None:
                    agg[k] = val[k] if agg[k] is None else f(agg[k], val[k])
            if len(samples) < 4:
                samples.extend(val["samples"][: 4 - len(samples)])
            if val.get("leaks"):
                rep.harness_error("unsimulated-clock-read %s" % val["leaks"])
            for f in val["fails"]:
                f["run"] = p["run"]
                fails.append(f)
        # determinism spot check: re-run a seeded sample of runs, compare digests
        rr = seeds.rng_for(seed, mod.PROP, "recheck")
        ok_runs = sorted(digests)
        recheck = sorted(set(rr.choice(ok_runs) for _ in range(max(1, len(ok_runs) // 50)))) if ok_runs else []
        if recheck and not (budget and time.time() - t0 > budget):
            res2 = farm.map("simkit.clockdrive:leaf_batch", [dict(payloads[r], audit=False) for r in recheck], timeout=900)
            for r, (st, val) in zip(recheck, res2):
                if st == "ok" and val["digest"] != digests[r]:
                    rep.harness_error("nondeterminism: run %d digest %s vs %s" % (r, digests[r], val["digest"]))
        # attribution: each distinct failing signature re-run alone in a fresh process
        by_sig = {}
        for f in fails:
            by_sig.setdefault(json.dumps(f["sig"], sort_keys=True), []).append(f)
        history_effects = []
        for key, fl in sorted(by_sig.items()):
            reproduced = None
            for f in fl[:3]:
                st, val = farm.call("simkit.clockdrive:leaf_single", {"module": modname, "case": f["case"]}, 300)
                if st != "ok":
                    rep.harness_error("single re-run failed: %s %s" % (st, str(val)[-300:]))
                    continue
                if not val["ok"]:
                    reproduced = (f, val)
                    break
            if reproduced is None:
                history_effects.append({"sig": fl[0]["sig"], "case": fl[0]["case"], "detail": fl[0]["detail"]})
                continue
            f, val = reproduced
            case = f["case"]
            if hasattr(mod, "simplify"):
                for cand in mod.simplify(case):
                    st2, v2 = farm.call("simkit.clockdrive:leaf_single", {"module": modname, "case": cand}, 300)
                    if st2 == "ok" and not v2["ok"] and v2["sig"] == val["sig"]:
                        case, val = cand, v2
            rep.violation(val["sig"], {"run": "r%dc%d" % (f["run"], f["index"]), "seed": seed, "case": case, "outcome": val.get("outcome"), "expected": val.get("expected"), "detail": val["detail"], "occurrences": len(fl)},
                          "%s (x%d) case=%s" % (val["detail"], len(fl), json.dumps(mod.describe(case) if hasattr(mod, "describe") else case, default=repr)[:600]))
    wall = time.time() - t0
    from .world import from_us

    coverage = {
        "evaluations": agg["n"],
        "distinct_nontrivial": len(agg["keys"]),
        "rule": mod.RULE,
        "samples": samples or [{"note": "no non-trivial sample captured"}],
        "runs": done,
        "cases_per_run": ncases,
        "runs_per_hour": int(done / max(wall, 1e-6) * 3600),
        "calls_per_hour": int(agg["n"] / max(wall, 1e-6) * 3600),
        "seeds": [seed],
        "simulated_clock_range": [str(from_us(agg["clock_min"])) if agg["clock_min"] is not None else None, str(from_us(agg["clock_max"])) if agg["clock_max"] is not None else None],
        "clock_reads_served": agg["reads"],
        "process_zones": dict(agg["zones"]),
        "probes": dict(agg["stats"]),
        "history_effects": history_effects[:10],
        "determinism_rechecked_runs": len(recheck) if ok_runs else 0,
        "real_vs_stub": {"real": ["dateparser (all of it)", "regex", "pytz", "tzlocal", "dateutil", "C library zone rules (localtime)"], "stub": ["system clock (SimDateTime at the module-level datetime seam)", "process zone (TZ/tzset/tzlocal.reload_localzone)"]},
    }
    zero = [k for k, v in getattr(mod, "EXPECTED_PROBES", {}).items() if not agg["stats"].get(k)]
    if zero:
        coverage["probes_stuck_at_zero"] = zero
        print("warning: probes stuck at zero: %s" % zero)
    return rep.finish(coverage, mod.ASSUMPTIONS)
