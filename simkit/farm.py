"""A farm of template workers; each task runs in a leaf forked from a template.

The set of tasks and their results are independent of the number of workers:
``map`` returns results in task order.
"""
import os
import queue
import subprocess
import sys
import threading

from . import env
from .worker import read_frame, write_frame

PY = sys.executable


class Worker:
    def __init__(self, hashseed, template, preload, repo, extra_env=None):
        self.c2w_r, self.c2w_w = os.pipe()  # main -> worker
        self.w2c_r, self.w2c_w = os.pipe()  # worker -> main
        e = dict(os.environ)
        e["PYTHONHASHSEED"] = str(hashseed)
        e["VERIF_TEMPLATE"] = template
        e["VERIF_PRELOAD"] = ",".join(preload)
        e["VERIF_REPO"] = repo
        e["PYTHONDONTWRITEBYTECODE"] = "1"
        if extra_env:
            e.update(extra_env)
        self.proc = subprocess.Popen(
            [PY, "-B", os.path.join(env.VERIF_DIR, "simkit", "worker.py"), str(self.c2w_r), str(self.w2c_w)],
            pass_fds=(self.c2w_r, self.w2c_w),
            env=e,
            stdin=subprocess.DEVNULL,
            stdout=sys.stderr,
            cwd=env.VERIF_DIR,
        )
        os.close(self.c2w_r)
        os.close(self.w2c_w)
        hello = read_frame(self.w2c_r)
        if not hello or hello[0] != "ready":
            raise RuntimeError("worker failed to start: %r" % (hello,))

    def call(self, func_path, payload, timeout):
        write_frame(self.c2w_w, (func_path, payload, timeout))
        res = read_frame(self.w2c_r)
        if res is None:
            return ("died", "worker process exited")
        return res

    def close(self):
        for fd in (self.c2w_w, self.w2c_r):
            try:
                os.close(fd)
            except OSError:
                pass
        try:
            self.proc.wait(timeout=5)
        except Exception:
            self.proc.kill()


class Farm:
    def __init__(self, n=None, hashseed=0, template="plain", preload=(), repo=None, extra_env=None):
        self.n = n or env.ncpu()
        self.args = (hashseed, template, tuple(preload), repo or env.repo_dir(), extra_env)
        self.workers = [None] * self.n
        self.lock = threading.Lock()

    def _get(self, i):
        if self.workers[i] is None:
            self.workers[i] = Worker(*self.args)
        return self.workers[i]

    def map(self, func_path, payloads, timeout=120, on_result=None):
        """Run func(payload) for each payload, each in a fresh leaf process.
        Returns a list of (status, value) in payload order."""
        payloads = list(payloads)
        results = [None] * len(payloads)
        q = queue.Queue()
        for i, p in enumerate(payloads):
            q.put((i, p))
        stop = threading.Event()

        def loop(wi):
            while not stop.is_set():
                try:
                    i, p = q.get_nowait()
                except queue.Empty:
                    return
                try:
                    w = self._get(wi)
                    res = w.call(func_path, p, timeout)
                    if res[0] == "died" and res[1] == "worker process exited":
                        w.close()
                        self.workers[wi] = None
                except Exception as e:  # worker start failure etc.
                    res = ("died", "farm error: %r" % (e,))
                    try:
                        if self.workers[wi] is not None:
                            self.workers[wi].close()
                    except Exception:
                        pass
                    self.workers[wi] = None
                results[i] = res
                if on_result is not None:
                    with self.lock:
                        if on_result(i, res) is False:
                            stop.set()

        threads = [threading.Thread(target=loop, args=(wi,), daemon=True) for wi in range(min(self.n, max(1, len(payloads))))]
        for t in threads:
            t.start()
        for t in threads:
            t.join()
        return results

    def call(self, func_path, payload, timeout=120):
        return self.map(func_path, [payload], timeout)[0]

    def close(self):
        for w in self.workers:
            if w is not None:
                w.close()
        self.workers = [None] * self.n

    def __enter__(self):
        return self

    def __exit__(self, *a):
        self.close()
