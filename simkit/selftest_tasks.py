import os, sys, time


def echo(p):
    return {"i": p["i"], "pid": os.getpid(), "dp": "dateparser" in sys.modules, "hs": os.environ.get("PYTHONHASHSEED")}


def hang(p):
    time.sleep(100)


def crash(p):
    os._exit(3)
