"""simkit: deterministic-simulation scaffolding for the dateparser checks.

Nothing in this package imports dateparser at import time; the tree under test
is selected by VERIF_REPO (default /repo) and put first on sys.path by
``simkit.env.setup_path`` before the first ``import dateparser``.
"""
