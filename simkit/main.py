import argparse
import importlib
import os
import sys

sys.path.insert(0, os.path.dirname(os.path.dirname(os.path.abspath(__file__))))

CHECKS = {
    "C03": "checks.c03_history",
    "C04": "checks.c04_relative",
    "C10": "checks.c10_strict",
    "C12": "checks.c12_tz",
    "C14": "checks.c14_formats",
    "C19": "checks.c19_crash",
    "C20": "checks.c20_sched",
    "selftest": "checks.selftest",
}


def main():
    ap = argparse.ArgumentParser()
    ap.add_argument("check")
    ap.add_argument("--tier", default=os.environ.get("VERIF_TIER", "quick"), choices=["quick", "thorough"])
    ap.add_argument("--replay")
    ap.add_argument("--seed", type=int)
    ap.add_argument("--runs", type=int, help="override number of runs (debugging)")
    ap.add_argument("--jobs", type=int)
    ap.add_argument("--budget", type=float, help="wall budget in seconds for sampling layers")
    args = ap.parse_args()
    if args.seed is not None:
        os.environ["VERIF_SEED"] = str(args.seed)
    if args.jobs:
        os.environ["VERIF_JOBS"] = str(args.jobs)
    mod = importlib.import_module(CHECKS[args.check])
    sys.exit(mod.main(args))


if __name__ == "__main__":
    main()
