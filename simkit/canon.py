"""Canonical, JSON-encodable forms of arguments and outcomes."""
import datetime as _dt

REAL = _dt.datetime


def enc_value(v):
    """Encode a settings / argument value to JSON-able form."""
    if isinstance(v, REAL):
        tz = None
        if v.tzinfo is not None:
            zone = getattr(v.tzinfo, "zone", None)
            if zone:
                tz = {"zone": zone}
            else:
                tz = {"offset_s": v.utcoffset().total_seconds()}
        return {"__dt__": [v.year, v.month, v.day, v.hour, v.minute, v.second, v.microsecond], "tz": tz}
    if isinstance(v, dict):
        return {k: enc_value(x) for k, x in v.items()}
    if isinstance(v, tuple):
        return {"__tuple__": [enc_value(x) for x in v]}
    if isinstance(v, (list,)):
        return [enc_value(x) for x in v]
    if isinstance(v, (set, frozenset)):
        return {"__set__": sorted(enc_value(x) for x in v)}
    return v


def dec_value(v):
    if isinstance(v, dict):
        if "__dt__" in v:
            d = REAL(*v["__dt__"])
            tz = v.get("tz")
            if tz:
                if "zone" in tz:
                    import pytz

                    d = pytz.timezone(tz["zone"]).localize(d)
                else:
                    d = d.replace(tzinfo=_dt.timezone(_dt.timedelta(seconds=tz["offset_s"])))
            return d
        if "__tuple__" in v:
            return tuple(dec_value(x) for x in v["__tuple__"])
        if "__set__" in v:
            return set(dec_value(x) for x in v["__set__"])
        return {k: dec_value(x) for k, x in v.items()}
    if isinstance(v, list):
        return [dec_value(x) for x in v]
    return v


def canon_dt(d):
    if d is None:
        return None
    if not isinstance(d, REAL):
        return ["?", repr(d)]
    off = d.utcoffset()
    name = None
    if d.tzinfo is not None:
        try:
            name = d.tzname()
        except Exception:
            name = "?"
    return [d.year, d.month, d.day, d.hour, d.minute, d.second, d.microsecond, None if off is None else off.total_seconds(), name, type(d).__name__]


def canon_result(r):
    """Canonical outcome value for any public API return value."""
    if r is None:
        return None
    if isinstance(r, REAL):
        return canon_dt(r)
    if isinstance(r, list):
        return [canon_result(x) for x in r]
    if isinstance(r, tuple):
        if hasattr(r, "_fields"):
            return {"__nt__": {f: canon_result(getattr(r, f)) for f in r._fields}}
        return ["tuple"] + [canon_result(x) for x in r]
    if isinstance(r, (str, int, float, bool)):
        return r
    if hasattr(r, "date_obj") and hasattr(r, "period"):
        return {"date_obj": canon_dt(r.date_obj), "period": r.period, "locale": getattr(r, "locale", None)}
    if isinstance(r, dict):
        return {str(k): canon_result(v) for k, v in r.items()}
    return ["repr", repr(r)]


def outcome(fn):
    """Run fn(); outcome = ('ok', canon value) | ('exc', class name)."""
    try:
        return ["ok", canon_result(fn())]
    except Exception as e:  # noqa
        return ["exc", type(e).__name__]
