"""Evidence files, known findings, violation reporting and exit codes.

exit 0  property held on everything explored (KNOWN-FINDING lines allowed)
exit 1  at least one VIOLATION not listed in known_findings.json
exit 2  harness trouble only (timeouts, non-reproducing replays, nondeterminism)
"""
import json
import os
import sys
import time

from . import env

EVIDENCE_DIR = os.path.join(env.VERIF_DIR, "evidence")
if os.path.realpath(env.repo_dir()) != "/repo" or os.environ.get("VERIF_EVIDENCE_SCRATCH"):
    # a run against a scratch tree (tools/with_patch.sh, sensitivity runs) must not overwrite
    # the evidence of /repo itself
    EVIDENCE_DIR = os.path.join(env.scratch_root(), "verif-evidence-of-scratch-trees")
REPLAY_DIR = os.path.join(env.VERIF_DIR, "replays")
FINDINGS_FILE = os.path.join(env.VERIF_DIR, "known_findings.json")


def jsonable(o):
    import datetime as dt

    if isinstance(o, dict):
        return {str(k): jsonable(v) for k, v in o.items()}
    if isinstance(o, (list, tuple)):
        return [jsonable(v) for v in o]
    if isinstance(o, (set, frozenset)):
        return sorted(jsonable(v) for v in o)
    if isinstance(o, (str, int, float, bool)) or o is None:
        return o
    if isinstance(o, bytes):
        return {"__bytes__": o.hex()}
    if isinstance(o, dt.datetime):
        return {"__dt__": o.isoformat(), "tz": repr(o.tzinfo) if o.tzinfo else None}
    return repr(o)


def load_findings():
    if not os.path.exists(FINDINGS_FILE):
        return {"findings": [], "fixed": []}
    with open(FINDINGS_FILE) as f:
        return json.load(f)


def match_finding(prop, signature):
    """A finding matches when every key of its 'match' dict equals the same key
    of the violation's signature (lists in 'match' mean: any of)."""
    for f in load_findings().get("findings", []):
        if f.get("property") != prop:
            continue
        m = f.get("match", {})
        ok = True
        for k, v in m.items():
            sv = signature.get(k)
            if isinstance(v, list) and not isinstance(sv, list):
                if sv not in v:
                    ok = False
                    break
            elif sv != v:
                ok = False
                break
        if ok and m:
            return f
    return None


class Reporter:
    def __init__(self, prop, tier, seed, level):
        self.prop = prop
        self.tier = tier
        self.seed = seed
        self.level = level
        self.t0 = time.time()
        self.violations = []  # dicts: signature, replay(dict), summary
        self.harness = []
        self.notes = []

    def violation(self, signature, replay, summary):
        self.violations.append({"signature": signature, "replay": replay, "summary": summary})

    def harness_error(self, msg):
        self.harness.append(msg)

    def write_replay(self, idx, replay):
        os.makedirs(REPLAY_DIR, exist_ok=True)
        path = os.path.join(REPLAY_DIR, "%s-%d-%s.json" % (self.prop, self.seed, idx))
        with open(path, "w") as f:
            json.dump(jsonable(replay), f, indent=1, sort_keys=True)
        return path

    def finish(self, coverage, assumptions, extra=None):
        """Write evidence, print VIOLATION / KNOWN-FINDING / HARNESS lines, return exit code."""
        new, known = [], {}
        for i, v in enumerate(self.violations):
            f = match_finding(self.prop, v["signature"])
            if f is not None:
                known.setdefault(f["id"], (f, []))[1].append(v)
            else:
                new.append((i, v))
        seen_sig = set()
        n_new = 0
        for i, v in new:
            key = json.dumps(jsonable(v["signature"]), sort_keys=True)
            if key in seen_sig:
                continue
            seen_sig.add(key)
            n_new += 1
            if n_new > 25:
                continue
            path = self.write_replay(v["replay"].get("run", i), v["replay"])
            print("VIOLATION property=%s replay=%s" % (self.prop, path))
            print("  " + v["summary"])
        for fid, (f, vs) in sorted(known.items()):
            print("KNOWN-FINDING: property=%s %s [%s; %d occurrence(s) this run]" % (self.prop, f["what"], fid, len(vs)))
        for h in self.harness[:20]:
            print("HARNESS %s" % h)
        coverage = dict(coverage)
        coverage.setdefault("known_finding_hits", {fid: len(vs) for fid, (f, vs) in known.items()})
        coverage.setdefault("harness_errors", len(self.harness))
        ev = {
            "property_id": self.prop,
            "tier": self.tier,
            "seed": self.seed,
            "level": self.level,
            "coverage": jsonable(coverage),
            "assumptions": list(assumptions),
            "wall_s": round(time.time() - self.t0, 2),
            "violations": n_new,
        }
        if extra:
            ev.update(jsonable(extra))
        os.makedirs(EVIDENCE_DIR, exist_ok=True)
        tmp = os.path.join(EVIDENCE_DIR, ".%s.json.tmp" % self.prop)
        with open(tmp, "w") as f:
            json.dump(ev, f, indent=1, sort_keys=True)
        os.replace(tmp, os.path.join(EVIDENCE_DIR, "%s.json" % self.prop))
        if n_new:
            code = 1
        elif self.harness:
            code = 2
        else:
            code = 0
        print(
            "%s tier=%s seed=%d evaluations=%s distinct_nontrivial=%s violations=%d known=%d harness=%d wall=%.1fs exit=%d"
            % (
                self.prop,
                self.tier,
                self.seed,
                coverage.get("evaluations"),
                coverage.get("distinct_nontrivial"),
                n_new,
                sum(len(vs) for _, vs in known.values()),
                len(self.harness),
                time.time() - self.t0,
                code,
            )
        )
        sys.stdout.flush()
        return code
