"""Deterministic thread scheduler: baton-passed real threads, traced pre-emption points.

* One real thread per call; the controller releases exactly one at a time, so
  the only thing that is not real is the choice of who runs.
* Pre-emption points are ``sys.settrace`` line events in frames whose code lives
  under ``<tree>/dateparser/`` and whose chain of frames up to the thread's
  entry consists of such frames only (never park a thread inside a foreign
  critical section such as stdlib ``_strptime``'s cache lock, or inside the
  import machinery).
* ``threading.Lock`` / ``threading.RLock`` objects created by the library are
  scheduler-aware (``SimLock``): a simulated thread that would block reports
  "blocked on L" and the controller runs the owner instead of waiting.
* A plan is a list of ``[thread, eligible steps to run]``; when it is exhausted
  the remaining threads run to completion in index order.  One plan = one
  exactly repeatable execution (under a frozen clock and a fixed hash seed).

The harness' own synchronisation uses raw ``_thread`` locks, which are never
replaced.
"""
import _thread
import os
import sys
import threading
import time

_RealLock = threading.Lock
_RealRLock = threading.RLock

_active = None  # the Scheduler currently running, if any
_held = {}  # sim tid -> number of library locks (SimLocks) it currently holds
_HARNESS_DIR = os.path.dirname(os.path.dirname(os.path.abspath(__file__))) + os.sep
_tls = threading.local()


def current_tid():
    return getattr(_tls, "tid", None)


class SimLock:
    """Drop-in for threading.Lock / RLock.  Delegates to a real lock unless the
    caller is a simulated thread of an active scheduler and the lock is held."""

    def __init__(self, reentrant=False):
        self._real = _RealRLock() if reentrant else _RealLock()
        self._reentrant = reentrant
        self._owner = None  # sim tid or ('real', ident)
        self._count = 0

    def _me(self):
        tid = current_tid()
        return ("sim", tid) if tid is not None else ("real", _thread.get_ident())

    def acquire(self, blocking=True, timeout=-1):
        me = self._me()
        sched = _active
        if sched is None or me[0] != "sim":
            ok = self._real.acquire(blocking, timeout) if blocking else self._real.acquire(False)
            if ok:
                self._owner = me
                self._count += 1
            return ok
        while True:
            if self._real.acquire(False):
                self._owner = me
                self._count += 1
                _held[me[1]] = _held.get(me[1], 0) + 1
                return True
            if not blocking:
                return False
            if timeout is not None and timeout >= 0:
                # a *timed* acquire while the owner is held by the schedule: simulated time jumps,
                # the timeout fires (the property's schedule keeps the owner paused until the
                # other call has completed, however long that takes)
                sched.lock_timeouts += 1
                return False
            # contended: hand control to whoever owns the lock
            sched.blocked(me[1], self)

    def release(self):
        tid = current_tid()
        if tid is not None and _held.get(tid, 0) > 0:
            _held[tid] -= 1
        self._count -= 1
        if self._count <= 0:
            self._owner = None
            self._count = 0
        self._real.release()

    def locked(self):
        # bookkeeping, not a trial acquire: the controller may be the very thread that holds a
        # re-entrant lock (left held by a call made during the sequential warm-up)
        return self._count > 0

    def _is_owned(self):
        return self._owner == self._me()

    def _at_fork_reinit(self):
        self._real = _RealRLock() if self._reentrant else _RealLock()
        self._owner, self._count = None, 0

    __enter__ = acquire

    def __exit__(self, *a):
        self.release()


def _lock_factory():
    return SimLock(False)


def _rlock_factory():
    return SimLock(True)


def patch_locks():
    """Install before the library is imported (worker pre-import hook)."""
    threading.Lock = _lock_factory
    threading.RLock = _rlock_factory


def unpatch_locks():
    threading.Lock = _RealLock
    threading.RLock = _RealRLock


class Deadlock(Exception):
    pass


class Stall(Exception):
    pass


INF = 1 << 60


def _entry(fn):
    """Every simulated thread enters the library through this frame (the tracer's anchor)."""
    return fn()


ENTRY_CODE = _entry.__code__


class Scheduler:
    def __init__(self, prefix, fns, plan, record=False, stall_s=60.0, opcode=False, raw=False):
        self.prefix = prefix
        self.raw = raw  # threads started with _thread.start_new_thread: invisible to the threading module (embedded / uwsgi-style threads)
        self.fns = fns
        self.plan = [list(x) for x in plan]
        self.record = record
        self.stall_s = stall_s
        self.opcode = opcode
        n = len(fns)
        self.n = n
        self.batons = [_thread.allocate_lock() for _ in range(n)]
        for b in self.batons:
            b.acquire()
        self.ctrl = _thread.allocate_lock()
        self.ctrl.acquire()
        self.state = ["new"] * n  # new | ready | parked | blocked | done
        self.blocked_on = [None] * n
        self.budget = [0] * n
        self.count = [0] * n
        self.results = [None] * n
        self.trace = []  # (tid, file, line, func) when recording
        self.switch_sites = []  # where a thread was parked by budget exhaustion
        self.block_events = []
        self.threads = []
        self.log = []  # (tid, steps run in this segment, why it stopped)
        self.lock_timeouts = 0
        # tracing is only needed while a thread can still be pre-empted: after its last
        # planned segment (or if the plan never mentions it) it runs untraced
        self.remaining = [sum(1 for t, _ in self.plan if t == i) for i in range(n)]
        self.untraced = [False] * n

    # ---- called from simulated threads -------------------------------------
    def _yield_to_controller(self, tid):
        self.ctrl.release()
        self.batons[tid].acquire()

    def step(self, tid, frame):
        self.count[tid] += 1
        if self.record:
            co = frame.f_code
            self.trace.append((tid, co.co_filename[len(self.prefix):], frame.f_lineno, co.co_name, _held.get(tid, 0)))
        b = self.budget[tid] - 1
        self.budget[tid] = b
        if b <= 0:
            co = frame.f_code
            self.switch_sites.append((tid, self.count[tid], co.co_filename[len(self.prefix):], frame.f_lineno, co.co_name))
            self.state[tid] = "parked"
            self._yield_to_controller(tid)
            if self.remaining[tid] <= 0 and not self.record:
                self.untraced[tid] = True
                sys.settrace(None)

    def blocked(self, tid, lock):
        self.state[tid] = "blocked"
        self.blocked_on[tid] = lock
        self.block_events.append((tid, self.count[tid]))
        self._yield_to_controller(tid)
        self.blocked_on[tid] = None

    def _thread_main(self, tid):
        _tls.tid = tid
        self.batons[tid].acquire()  # first grant
        tr = _Tracer(self, tid)
        try:
            if self.record or self.remaining[tid] > 0 or self.budget[tid] < INF:
                sys.settrace(tr.global_trace)
            else:
                self.untraced[tid] = True
            try:
                self.results[tid] = ("ok", _entry(self.fns[tid]))
            finally:
                sys.settrace(None)
        except BaseException as e:  # noqa
            self.results[tid] = ("exc", e)
        self.state[tid] = "done"
        self.ctrl.release()

    # ---- controller ---------------------------------------------------------
    def _run(self, tid, budget):
        """Let thread tid run for `budget` eligible steps (or until it finishes / blocks)."""
        before = self.count[tid]
        self.budget[tid] = budget
        self.state[tid] = "ready"
        self.batons[tid].release()
        t0 = time.monotonic()
        while not self.ctrl.acquire(timeout=1.0):
            if time.monotonic() - t0 > self.stall_s:
                raise Stall("thread %d emitted no event for %.0fs (state %s)" % (tid, self.stall_s, self.state))
        self.log.append((tid, self.count[tid] - before, self.state[tid]))

    def _owner_tid(self, lock):
        o = lock._owner
        return o[1] if o and o[0] == "sim" else None

    def run(self):
        global _active
        _active = self
        _held.clear()
        try:
            for tid in range(self.n):
                if self.raw:
                    _thread.start_new_thread(self._thread_main, (tid,))
                    continue
                th = threading.Thread(target=self._thread_main, args=(tid,), name="sim-%d" % tid, daemon=True)
                self.threads.append(th)
                th.start()
            plan = list(self.plan)
            while True:
                live = [t for t in range(self.n) if self.state[t] != "done"]
                if not live:
                    break
                if plan:
                    tid, n = plan[0]
                    if self.state[tid] == "done":
                        plan.pop(0)
                        continue
                else:
                    tid, n = live[0], INF
                if self.state[tid] == "blocked":
                    lock = self.blocked_on[tid]
                    owner = self._owner_tid(lock)
                    if owner is None and lock.locked():
                        # held by a thread that is not part of the schedule (left held by an earlier,
                        # e.g. failed, call): nobody will ever release it
                        raise Deadlock("thread %d waits for a lock that no simulated thread holds" % tid)
                    if owner is not None and owner != tid and lock.locked():
                        if self.state[owner] == "done":
                            raise Deadlock("thread %d waits for a lock still held by thread %d, which has finished" % (tid, owner))
                        # the owner has to release the lock first: follow the wait chain
                        seen = {tid}
                        while self.state[owner] == "blocked":
                            if owner in seen:
                                raise Deadlock("threads %s wait for each other" % sorted(seen))
                            seen.add(owner)
                            nxt = self._owner_tid(self.blocked_on[owner])
                            if nxt is None or not self.blocked_on[owner].locked():
                                break
                            owner = nxt
                        if owner in seen and self.state[owner] == "blocked":
                            raise Deadlock("threads %s wait for each other" % sorted(seen))
                        self._run(owner, INF)
                        continue
                if plan:
                    plan.pop(0)
                    self.remaining[tid] -= 1
                self._run(tid, n)
            for th in self.threads:
                th.join(5)
        finally:
            _active = None
        return self.results


class _Tracer:
    def __init__(self, sched, tid):
        self.sched = sched
        self.tid = tid
        self.prefix = sched.prefix
        self.local = self._local  # one bound-method object: identity marks eligible frames
        self.entry_local = self._entry_local
        self.opcode = sched.opcode

    def global_trace(self, frame, event, arg):
        if event != "call":
            return None
        code = frame.f_code
        if code is ENTRY_CODE:
            return self.entry_local
        parent = frame.f_back
        if parent is None:
            return None
        pt = parent.f_trace
        if (pt is self.local or pt is self.entry_local) and code.co_filename.startswith(self.prefix):
            if self.opcode:
                frame.f_trace_opcodes = True
            return self.local
        if pt is self.entry_local and code.co_filename.startswith(_HARNESS_DIR):
            return self.entry_local  # harness glue between the entry and the library call
        return None

    def _local(self, frame, event, arg):
        if self.sched.untraced[self.tid]:
            return None
        if event == "line" or (event == "opcode" and self.opcode):
            self.sched.step(self.tid, frame)
        return self.local

    def _entry_local(self, frame, event, arg):
        return self.entry_local
