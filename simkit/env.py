import os
import sys

VERIF_DIR = os.path.dirname(os.path.dirname(os.path.abspath(__file__)))


def repo_dir():
    return os.path.abspath(os.environ.get("VERIF_REPO", "/repo"))


def setup_path():
    """Make ``import dateparser`` resolve to the tree under test."""
    r = repo_dir()
    if sys.path[0] != r:
        sys.path.insert(0, r)
    if VERIF_DIR not in sys.path:
        sys.path.insert(1, VERIF_DIR)
    return r


def scratch_root():
    base = os.environ.get("VERIF_TMP")
    if not base:
        base = "/dev/shm" if os.path.isdir("/dev/shm") and os.access("/dev/shm", os.W_OK) else "/tmp"
    return base


def ncpu():
    try:
        n = len(os.sched_getaffinity(0))
    except Exception:
        n = os.cpu_count() or 4
    return max(1, int(os.environ.get("VERIF_JOBS", n)))
