"""Imported by the template worker *before* dateparser: locks the library creates
while it is being imported become scheduler-aware SimLocks, which behave exactly
like real locks whenever no simulation is running.  (The patch stays
installed for the life of the template and of every leaf forked from it.)"""
from simkit import simsched

simsched.patch_locks()


def after_import():
    # the patch stays on in the template: a lock the library creates in an at-fork handler (every leaf
    # is a forked child of the template) or at call time must be scheduler-aware as well
    pass
