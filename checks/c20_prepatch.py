"""Imported by the template worker *before* dateparser: locks the library creates
while it is being imported become scheduler-aware SimLocks, which behave exactly
like real locks whenever no simulation is running.  (Locks the library creates
later, at call time, are covered by patching again around each schedule.)"""
from simkit import simsched

simsched.patch_locks()


def after_import():
    simsched.unpatch_locks()
