"""Determinism self-test of the simulation engines.

For every engine: the same seeded runs are executed three times -- with 4
workers, with 16 workers, and in template processes started under another
PYTHONHASHSEED -- and the per-run event digests (generated cases, outcomes,
clock read counts, schedule traces, disk traces) are compared.  Any difference
is a nondeterminism in the harness (or a hash-seed dependence of the library,
which C03 would report as such) and makes every verdict untrustworthy.

exit 0: all digests equal; exit 2: HARNESS nondeterminism ...
"""
import os
import shutil
import sys
import time

from simkit import env, seeds
from simkit.farm import Farm


def clock_engine(mod, nruns, ncases):
    payloads = [{"module": mod, "seed": 424242, "run": r, "ncases": ncases, "tier": "quick", "audit": False} for r in range(nruns)]

    def go(n, hs):
        with Farm(n=n, hashseed=hs, preload=[mod]) as f:
            return [(st, val["digest"] if st == "ok" else str(val)[-200:]) for st, val in f.map("simkit.clockdrive:leaf_batch", payloads, timeout=600)]

    return go


def c03_engine(nh):
    from checks import c03_history

    def go(n, hs):
        with Farm(n=n, hashseed=hs, preload=["checks.c03_history"]) as f:
            st, pools = f.call("checks.c03_history:build_pools", {}, 300)
            payloads = []
            for i in range(nh):
                h = c03_history.gen_history(seeds.rng_for(99, "C03", i), pools, "quick")
                for seg in c03_history.segments(h):
                    payloads.append({"zone": h["zone"], "ops": seg})
            out = []
            for st, val in f.map("checks.c03_history:run_history", payloads, timeout=600):
                out.append((st, seeds.digest([payloads[len(out)], val["outs"]]) if st == "ok" else str(val)[-200:]))
            return out

    return go


def c19_engine(nr):
    from checks import c19_crash, c19_simdisk

    def go(n, hs):
        base = os.path.join(env.scratch_root(), "verif-selftest-c19-%d-%d-%d" % (os.getpid(), n, hs))
        os.makedirs(base, exist_ok=True)
        try:
            payloads = [{"scratch": base, "seed": 5, "run": r, "cfg": c19_simdisk.draw_cfg(seeds.rng_for(5, "C19", "bcfg:%d" % r), "quick")} for r in range(nr)]
            with Farm(n=n, hashseed=hs, template="none", preload=c19_crash.DEPS + ["checks.c19_crash"], extra_env={"PYTHONDONTWRITEBYTECODE": ""}) as f:
                return [(st, (val["trace_digest"], sorted((k, v["status"]) for k, v in val["results"].items())) if st == "ok" else str(val)[-200:]) for st, val in f.map("checks.c19_simdisk:run_schedule", payloads, timeout=600)]
        finally:
            shutil.rmtree(base, ignore_errors=True)

    return go


def c20_engine(nplans):
    from checks import c20_sched

    def go(n, hs):
        names = sorted(c20_sched.CALLS)
        payloads = []
        for i in range(nplans):
            rng = seeds.rng_for(7, "C20", "self:%d" % i)
            a, b = rng.choice(names[:-2]), rng.choice(names[:-2])
            calls = [c20_sched.with_clock(c20_sched.CALLS[a]), c20_sched.with_clock(c20_sched.CALLS[b])]
            for j, op in enumerate(calls):
                if "slot" in op:
                    op["slot"] = 10 + j
            plan = [[rng.randrange(2), rng.choice([1, 7, 50, 300, 900, 2000])] for _ in range(rng.randrange(1, 4))]
            payloads.append({"calls": calls, "warm": rng.random() < 0.5, "zone": "UTC", "plan": plan})
        with Farm(n=n, hashseed=hs, preload=["checks.c20_sched", "checks.c03_history", "simkit.simsched"], extra_env={"VERIF_PREIMPORT": "checks.c20_prepatch"}) as f:
            # step counts legitimately depend on the hash seed (set iteration order changes how many lines
            # execute), so it is part of the world: under another hash seed only status and outcomes are compared
            full = hs == 0
            return [(st, seeds.digest([val["status"], val["outs"]] + ([val["log"], val["switch_sites"], val["counts"]] if full else [])) if st == "ok" else str(val)[-200:]) for st, val in f.map("checks.c20_sched:run_plan", payloads, timeout=600)]

    return go


def main(args):
    quick = args.tier == "quick"
    k = 1 if quick else 4
    engines = [
        ("clockworld/C14", clock_engine("checks.c14_formats", 24 * k, 150)),
        ("clockworld/C04", clock_engine("checks.c04_relative", 24 * k, 150)),
        ("clockworld/C12", clock_engine("checks.c12_tz", 24 * k, 150)),
        ("clockworld/C10", clock_engine("checks.c10_strict", 16 * k, 30)),
        ("history/C03", c03_engine(60 * k)),
        ("simdisk/C19", c19_engine(60 * k)),
        ("sched/C20", c20_engine(64 * k)),
    ]
    bad = 0
    t0 = time.time()
    for name, go in engines:
        a = go(4, 0)
        b = go(16, 0)
        c = go(16, 31337)
        errs = [x for x in a + b + c if x[0] != "ok"]
        same_workers = a == b
        if name.startswith("sched/"):
            # compare the hash-seed run against itself re-executed (exact replay under that seed) ...
            same_hash = c == go(4, 31337)
        else:
            same_hash = a == c
        print("%-16s runs=%d  4-vs-16-workers:%s  hashseed-0-vs-31337:%s  leaf-errors:%d" % (name, len(a), "same" if same_workers else "DIFFER", "same" if same_hash else "DIFFER", len(errs)))
        if not same_workers:
            i = next(i for i, (x, y) in enumerate(zip(a, b)) if x != y)
            print("HARNESS nondeterminism engine=%s run=%d (worker count): %s vs %s" % (name, i, a[i], b[i]))
            bad += 1
        if not same_hash:
            i = next(i for i, (x, y) in enumerate(zip(a, c)) if x != y)
            print("HARNESS nondeterminism engine=%s run=%d (hash seed): %s vs %s" % (name, i, a[i], c[i]))
            bad += 1
        if errs:
            print("HARNESS leaf errors in %s: %s" % (name, errs[0][1]))
            bad += 1
        sys.stdout.flush()
    print("selftest wall=%.0fs %s" % (time.time() - t0, "OK" if not bad else "FAILED"))
    return 0 if not bad else 2
