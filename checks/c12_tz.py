"""C12 -- timezone settings preserve the instant; awareness follows the setting.

The simulator owns the process zone (TIMEZONE='local', the default, makes every
result depend on it) and the clock (the relative parser's result is an instant
derived from it).  pytz is the independent zone database.  Inputs per parser:
relative (T - delta: instant known a priori), timestamp (epoch: instant known),
absolute and custom-format (rendered wall clock, with/without a zone suffix).
"""
import datetime as dt

from simkit import clockdrive, world
from simkit.canon import canon_dt, dec_value, enc_value

PROP = "C12"
LEVEL = "exploration"
RULE = (
    "one evaluation = one parse under a simulated process zone and clock with TIMEZONE / TO_TIMEZONE / RETURN_AS_TIMEZONE_AWARE drawn; "
    "non-trivial = source and target zone have different UTC offsets at the instant (a conversion really happened) or the process zone decided the interpretation; "
    "distinct by (parser, TIMEZONE value or process zone, TO_TIMEZONE value, awareness, string zone, near-DST flag, conversion flag)"
)
ASSUMPTIONS = [
    "pytz is the zone oracle (independent of dateparser's code and abbreviation table, not of its tzdata); years 1952..2035",
    "local times in a gap or ambiguous in the interpreting zone are rejected by the generator (pytz is_dst=None), as the quantifier says",
    "relative inputs keep delta small enough that the interpreting zone has no UTC-offset change between T-delta and T",
    "abbreviation / offset zones use offsets hard-coded in the harness (UTC, GMT, EST, EDT, PST, PDT, CET, CEST, JST, MSK, +HHMM forms)",
]
EXPECTED_PROBES = {"relative_base_route": 1, "relative_clock_time": 1, "custom_format_with_zone": 1, "relative": 1, "timestamp": 1, "absolute": 1, "custom": 1, "string_zone": 1, "local_nonutc": 1, "offsets_differ": 1, "aware_true": 1, "aware_false": 1, "near_dst": 1, "date_differs_between_zones": 1}

ABBR = {"UTC": 0, "GMT": 0, "EST": -300, "EDT": -240, "PST": -480, "PDT": -420, "CET": 60, "CEST": 120, "JST": 540, "MSK": 180,
        "+0530": 330, "-0330": -210, "+0100": 60, "-0800": -480, "+1400": 840, "+0545": 345, "-1100": -660, "-0300": -180, "+0900": 540}
STRING_ZONES = ["UTC", "GMT", "EST", "EDT", "PST", "PDT", "CET", "CEST", "JST", "MSK", "+0530", "-0330", "+0100", "-0800", "+05:45", "-03:00", "+09:00"]
SETTING_ABBR = ["UTC", "EST", "+0530", "-0800", "JST", "-0330", "MSK"]  # not CET: pytz knows a DST zone of that name, the table a fixed +1
EN_MONTHS = ["January", "February", "March", "April", "May", "June", "July", "August", "September", "October", "November", "December"]


_EXTRA = {}


def zone_obj(name):
    import pytz

    key = name.replace(":", "")
    if key in _EXTRA:
        return pytz.FixedOffset(_EXTRA[key]) if _EXTRA[key] else pytz.utc
    if key in ABBR:
        return pytz.FixedOffset(ABBR[key]) if ABBR[key] else pytz.utc
    return pytz.timezone(name)


# IANA zones whose own abbreviation on some dates is spelled like an abbreviation the library's table
# defines differently (Kolkata's IST vs the table's IST = +2, London's BST vs +11, ...)
COLLISION_ZONES = ["Asia/Kolkata", "Europe/London", "Asia/Shanghai", "Asia/Manila", "Europe/Dublin", "America/Havana", "Asia/Taipei", "America/Chicago", "America/Los_Angeles"]
COLLISION_ABBR = ["IST", "BST", "CST", "PST"]


class Context:
    def __init__(self, rng, tier):
        import pytz

        self.zone = rng.choice(world.ZONE_POOL)
        self.iana = rng.sample(list(pytz.common_timezones), 40)
        # offsets of those abbreviations as the tree's own table defines them (first entry of that name):
        # which offset an abbreviation has is another property's business, here it is only a conversion target
        self.table = {}
        try:
            from dateparser.timezones import timezone_info_list

            for info in timezone_info_list:
                for name, secs in info["timezones"]:
                    if name in COLLISION_ABBR and name not in self.table and secs % 60 == 0:
                        self.table[name] = secs // 60
        except Exception:  # noqa
            self.table = {}


def transitions(zone_name, lo, hi):
    import pytz

    try:
        tz = pytz.timezone(zone_name)
    except Exception:
        return []
    tt = getattr(tz, "_utc_transition_times", None) or []
    return [t for t in tt if lo <= t.year <= hi]


def draw_instant(rng, zones):
    """UTC naive instant 1952..2035, sometimes close to a DST transition of one of `zones`,
    sometimes close to UTC midnight (so that the date differs between zones)."""
    r = rng.random()
    if r < 0.35:
        z = rng.choice(zones)
        tt = transitions(z, 1952, 2035) if (z not in ABBR and z not in _EXTRA) else []
        if tt:
            t = rng.choice(tt)
            return t + dt.timedelta(seconds=rng.choice([-7200, -3601, -3600, -1800, -1, 0, 1, 1800, 3599, 3600, 7200, 86400, -86400])), True
    if r < 0.55:
        d = dt.datetime(rng.randrange(1952, 2036), rng.randrange(1, 13), rng.randrange(1, 29))
        return d + dt.timedelta(seconds=rng.choice([-1, 0, 1, 1800, -1800, 3600 * 5, -3600 * 5])), False
    return dt.datetime(rng.randrange(1952, 2036), rng.randrange(1, 13), rng.randrange(1, 29), rng.randrange(24), rng.randrange(60), rng.randrange(60)), False


def unambiguous_wall(tz, utc_naive):
    """Wall clock of the instant in tz, or None if that wall time is ambiguous there."""
    import pytz

    inst = pytz.utc.localize(utc_naive).astimezone(tz)
    wall = inst.replace(tzinfo=None)
    if hasattr(tz, "localize"):
        try:
            back = tz.localize(wall, is_dst=None)
        except Exception:
            return None
        if back.utcoffset() != inst.utcoffset():
            return None
    return wall


def gen_case(rng, ctx):
    zone = ctx.zone
    for _ in range(50):
        kind = rng.choice(["relative", "timestamp", "absolute", "absolute", "custom"])
        settings = {}
        r = rng.random()
        if r < 0.3:
            A = None
        elif r < 0.85:
            A = rng.choice(ctx.iana)
        else:
            A = rng.choice(SETTING_ABBR)
        if A:
            settings["TIMEZONE"] = A
        r = rng.random()
        B = None
        if r < 0.55:
            B = rng.choice(ctx.iana) if rng.random() < 0.8 else rng.choice(SETTING_ABBR)
            settings["TO_TIMEZONE"] = B
        if A and rng.random() < 0.06:
            B = A  # TO_TIMEZONE equal to TIMEZONE: still a conversion whenever the result is not in that zone yet
            settings["TO_TIMEZONE"] = B
        extra = {}
        if ctx.table and rng.random() < 0.06:
            # an IANA source zone and a table abbreviation as the target that the source zone itself may "spell"
            A = rng.choice(COLLISION_ZONES) if rng.random() < 0.8 else A
            if A:
                settings["TIMEZONE"] = A
            B = rng.choice(sorted(ctx.table))
            settings["TO_TIMEZONE"] = B
            extra = {B: ctx.table[B]}
        aw = rng.choice([None, True, False])
        if aw is not None:
            settings["RETURN_AS_TIMEZONE_AWARE"] = aw
        sz = None
        if kind == "absolute" and rng.random() < 0.4:
            sz = rng.choice(STRING_ZONES)
        if kind == "relative" and rng.random() < 0.25:
            sz = rng.choice(STRING_ZONES)  # "3 hours ago EST": now is taken in that zone
        if kind == "custom" and rng.random() < 0.25:
            sz = rng.choice(["+0530", "-0330", "+0100", "-0800", "+0545", "-0300", "+0900", "+1400"])  # rendered through %z
        interp = sz or A or zone
        zlist = [z for z in (interp, B, zone) if z]
        inst, near = draw_instant(rng, zlist)
        inst = inst.replace(microsecond=0)
        tzi = zone_obj(interp)
        case = {"zone": zone, "kind": kind, "settings": settings, "string_zone": sz, "near_dst": near, "policy": ["frozen"], "abbr_offsets": extra}
        _EXTRA.clear()
        _EXTRA.update(extra)
        if kind == "relative":
            import pytz

            unit = rng.choice(["hours", "minutes"])
            n = rng.randrange(0, 49) if unit == "hours" else rng.randrange(0, 3000)
            delta = dt.timedelta(**{unit: n})
            T = inst
            # no offset change, between T - delta and T (padded), of the zone the arithmetic happens in:
            # the interpreting zone, or TIMEZONE when the string's own zone is converted to it first
            arith = A if (sz and A) else interp
            route = "base" if rng.random() < 0.35 else "clock"
            for zz in {arith, interp}:
                if zz.replace(":", "") not in ABBR and zz not in _EXTRA:
                    lo, hi = T - delta - dt.timedelta(hours=3) - dt.timedelta(days=4), T + dt.timedelta(hours=3)
                    if any(lo <= t <= hi for t in transitions(zz, T.year - 1, T.year + 1)):
                        break
            else:
                zz = None
            if zz is not None:
                continue
            case["route"] = route
            if route == "base":
                # RELATIVE_BASE given as an AWARE datetime (an unambiguous instant); the system clock is elsewhere
                boff = rng.choice([0, 0, 330, -300, 540])
                bw = T + dt.timedelta(minutes=boff)
                case["base"] = {"__dt__": [bw.year, bw.month, bw.day, bw.hour, bw.minute, bw.second, bw.microsecond], "tz": {"offset_s": boff * 60.0}}
                case["base_off"] = boff
                skew = dt.datetime(rng.randrange(1971, 2036), rng.randrange(1, 13), rng.randrange(1, 29), rng.randrange(24), rng.randrange(60))
                case["clock_us"] = world.to_us(skew)
            else:
                case["clock_us"] = world.to_us(T)
            if rng.random() < 0.3:
                # a clock time in the phrase: it is stated in the string's own zone if there is one,
                # else in the zone the phrase is interpreted in
                if route == "base" and not sz:
                    Z = pytz.FixedOffset(case["base_off"]) if case["base_off"] else pytz.utc  # an aware base keeps its own wall clock
                else:
                    Z = zone_obj(sz or interp)
                zs = [Z] + ([zone_obj(A)] if (sz and A) else [])
                dates = {pytz.utc.localize(T).astimezone(z).date() for z in zs}
                if len(dates) != 1:
                    continue  # 'N days ago' must mean the same calendar day in every zone involved
                nd, hh, mm = rng.randrange(0, 4), rng.randrange(24), rng.randrange(60)
                wall = dt.datetime.combine(dates.pop() - dt.timedelta(days=nd), dt.time(hh, mm))
                try:
                    loc = Z.localize(wall, is_dst=None) if hasattr(Z, "localize") else wall.replace(tzinfo=Z)
                except Exception:
                    continue
                case.update({"string": "%d days ago at %02d:%02d" % (nd, hh, mm) + (" " + sz if sz else ""), "instant": world.to_us(loc.astimezone(pytz.utc).replace(tzinfo=None)), "clock_time": True})
                return case
            case.update({"string": "%d %s ago" % (n, unit) + (" " + sz if sz else ""), "instant": world.to_us(T - delta)})
            return case
        # clock somewhere unrelated
        clock = dt.datetime(rng.randrange(1971, 2036), rng.randrange(1, 13), rng.randrange(1, 29), rng.randrange(24), rng.randrange(60))
        case["clock_us"] = world.to_us(clock)
        if kind == "timestamp":
            if inst.year < 2002 or inst.year > 2030:
                inst = inst.replace(year=rng.randrange(2002, 2031), day=min(inst.day, 28))  # 10-digit epochs
            epoch = int((inst - dt.datetime(1970, 1, 1)).total_seconds())
            if not (10 ** 9 <= epoch < 10 ** 10):
                continue
            # the rendered wall time in the interpreting zone must be unambiguous to round-trip
            if unambiguous_wall(tzi, inst) is None:
                continue
            ms = rng.choice(["", "", "250", "250500"])
            case.update({"string": str(epoch) + ms, "instant": world.to_us(inst), "micro": int((ms + "000000")[:6]) if ms else 0})
            return case
        wall = unambiguous_wall(tzi, inst)
        if wall is None:
            continue
        case["instant"] = world.to_us(inst)
        if kind == "custom" and sz:
            # a given format with %z: the string carries its own (numeric) zone
            fmt = rng.choice(["%Y-%m-%d %H:%M:%S %z", "%d/%m/%Y %H:%M %z", "%Y%m%dT%H%M%S%z"])
            s = fmt.replace("%Y", "%04d" % wall.year).replace("%m", "%02d" % wall.month).replace("%d", "%02d" % wall.day).replace("%H", "%02d" % wall.hour).replace("%M", "%02d" % wall.minute).replace("%S", "%02d" % wall.second).replace("%z", sz)
            if "%S" not in fmt:
                case["instant"] = world.to_us(inst.replace(second=0))
            case.update({"string": s, "format": fmt})
            return case
        if kind == "custom" and rng.random() < 0.3:
            # a date-only format: the wall clock it expresses is that day's midnight in the interpreting zone
            import pytz

            wall = wall.replace(hour=0, minute=0, second=0)
            try:
                loc = tzi.localize(wall, is_dst=None) if hasattr(tzi, "localize") else wall.replace(tzinfo=tzi)
            except Exception:
                continue
            case["instant"] = world.to_us(loc.astimezone(pytz.utc).replace(tzinfo=None))
            fmt = rng.choice(["%Y-%m-%d", "%d/%m/%Y", "%d %B %Y"])
            s = fmt.replace("%Y", "%04d" % wall.year).replace("%m", "%02d" % wall.month).replace("%d", "%02d" % wall.day).replace("%B", EN_MONTHS[wall.month - 1])
            case.update({"string": s, "format": fmt})
            return case
        if kind == "custom":
            fmt = rng.choice(["%Y-%m-%d %H:%M:%S", "%d/%m/%Y %H:%M:%S", "%Y%m%d%H%M%S"])
            s = fmt.replace("%Y", "%04d" % wall.year).replace("%m", "%02d" % wall.month).replace("%d", "%02d" % wall.day).replace("%H", "%02d" % wall.hour).replace("%M", "%02d" % wall.minute).replace("%S", "%02d" % wall.second)
            case.update({"string": s, "format": fmt})
            return case
        style = rng.choice(["long", "iso"])
        if style == "long":
            s = "%d %s %d %02d:%02d:%02d" % (wall.day, EN_MONTHS[wall.month - 1], wall.year, wall.hour, wall.minute, wall.second)
        else:
            s = "%04d-%02d-%02d %02d:%02d:%02d" % (wall.year, wall.month, wall.day, wall.hour, wall.minute, wall.second)
        if sz:
            s += " " + sz
        case["string"] = s
        return case
    raise RuntimeError("generator could not produce a case")


def describe(case):
    return {k: case.get(k) for k in ("kind", "string", "format", "settings", "zone", "string_zone")} | {"clock_utc": str(world.from_us(case["clock_us"])), "instant_utc": str(world.from_us(case["instant"]))}


def simplify(case):
    if case["kind"] in ("absolute", "custom", "timestamp") or case.get("clock_time") or case.get("route") == "base":
        for k in list(case["settings"]):
            if k == "TIMEZONE":
                continue  # the rendered wall clock depends on it
            yield dict(case, settings={x: v for x, v in case["settings"].items() if x != k})


def eval_case(case):
    import pytz

    import dateparser

    world.set_zone(case["zone"])
    _EXTRA.clear()
    _EXTRA.update(case.get("abbr_offsets") or {})
    clk = world.clock()
    clk.set(case["clock_us"], case["policy"])
    n0 = len(clk.reads)
    settings = dict(case["settings"])
    if case.get("base") is not None:
        settings["RELATIVE_BASE"] = dec_value(case["base"])
    kw = {"languages": ["en"]}
    if case.get("format"):
        kw["date_formats"] = [case["format"]]
    if settings:
        kw["settings"] = settings
    try:
        res = dateparser.parse(case["string"], **kw)
        outcome = ["ok", canon_dt(res)]
    except Exception as e:  # noqa
        res = None
        outcome = ["exc", type(e).__name__]
    reads = len(clk.reads) - n0
    A, B, aw, sz = settings.get("TIMEZONE"), settings.get("TO_TIMEZONE"), settings.get("RETURN_AS_TIMEZONE_AWARE"), case["string_zone"]
    interp = sz or A or case["zone"]
    if B:
        target = B
    elif sz and A:
        target = A
    elif case.get("base") is not None and not sz:
        target = None  # an aware RELATIVE_BASE keeps its own zone (its fixed offset)
    else:
        target = interp
    inst = pytz.utc.localize(world.from_us(case["instant"]))
    if case["kind"] == "timestamp":
        inst = inst.replace(microsecond=case.get("micro", 0))
    tz_t = zone_obj(target) if target is not None else (pytz.FixedOffset(case["base_off"]) if case["base_off"] else pytz.utc)
    exp = inst.astimezone(tz_t)
    exp_wall, exp_off = exp.replace(tzinfo=None), exp.utcoffset()
    if aw is True:
        exp_aware = True
    elif aw is False:
        exp_aware = False
    else:
        exp_aware = bool(sz)
    stats = {case["kind"]: 1}
    if case.get("route") == "base":
        stats["relative_base_route"] = 1
    if case.get("clock_time"):
        stats["relative_clock_time"] = 1
    if sz and case["kind"] == "custom":
        stats["custom_format_with_zone"] = 1
    if sz:
        stats["string_zone"] = 1
    if not A and not sz and case["zone"] != "UTC":
        stats["local_nonutc"] = 1
    src_off = inst.astimezone(zone_obj(interp)).utcoffset()
    if src_off != exp_off:
        stats["offsets_differ"] = 1
    if aw is True:
        stats["aware_true"] = 1
    if aw is False:
        stats["aware_false"] = 1
    if case["near_dst"]:
        stats["near_dst"] = 1
    if inst.astimezone(zone_obj(interp)).date() != exp.date():
        stats["date_differs_between_zones"] = 1
    problems = []
    if outcome[0] != "ok":
        problems.append(("exception", outcome[1]))
    elif res is None:
        problems.append(("none", "no result"))
    else:
        if res.replace(tzinfo=None) != exp_wall:
            problems.append(("wrong-wall-clock", "got %s, expected %s in %s" % (res.replace(tzinfo=None), exp_wall, target)))
        if exp_aware and res.tzinfo is None:
            problems.append(("awareness", "expected an aware datetime, got naive"))
        if not exp_aware and res.tzinfo is not None:
            problems.append(("awareness", "expected a naive datetime, got tzinfo %r" % (res.tzinfo,)))
        if exp_aware and res.tzinfo is not None:
            if res.utcoffset() != exp_off:
                problems.append(("wrong-offset", "got utcoffset %s, expected %s" % (res.utcoffset(), exp_off)))
            elif res != inst:
                problems.append(("wrong-instant", "got %s, expected %s" % (res, inst)))
    def zclass(z):
        if z is None:
            return "local:" + ("utc" if case["zone"] == "UTC" else "nonutc")
        return "abbr" if (z.replace(":", "") in ABBR or z in _EXTRA) else "iana"
    key = None
    if src_off != exp_off or (not A and not sz and case["zone"] != "UTC"):
        key = (case["kind"], A or ("local:" + case["zone"]), B or "-", str(aw), sz or "-", "dst" if case["near_dst"] else "-", "conv" if src_off != exp_off else "same")
    if not problems:
        return {"ok": True, "key": key, "stats": stats, "reads": reads, "outcome": outcome}
    pr = problems[0]
    sig = {"kind": pr[0], "parser": case["kind"], "timezone": zclass(A), "to_timezone": zclass(B) if B else None, "aware": aw, "string_zone": bool(sz)}
    if case["kind"] == "relative":
        sig["route"] = case.get("route", "clock")
        sig["clock_time"] = bool(case.get("clock_time"))
    detail = "%s: parse(%r, date_formats=%r, settings=%r) process zone %s, clock %s -> %r; %s" % (pr[0], case["string"], case.get("format"), settings, case["zone"], world.from_us(case["clock_us"]), res, pr[1])
    return {"ok": False, "key": key, "sig": sig, "detail": detail, "stats": stats, "reads": reads, "outcome": outcome, "expected": [str(exp_wall), str(exp_off), exp_aware]}


def main(args):
    nruns, ncases = (200, 400) if args.tier == "quick" else (8000, 600)
    return clockdrive.drive(__import__("checks.c12_tz", fromlist=["x"]), args, nruns, ncases, 12)
