"""C10 -- strictness only filters; strict results never borrow from the clock.

Relational check under *pairs of distant simulated clocks* (the reference the
caller cannot set: parse_with_formats and the absolute parser read the system
clock when RELATIVE_BASE is absent, and the custom-format path reads it even
when RELATIVE_BASE is given) crossed with pairs of distant RELATIVE_BASE values.

R0  a strict result only if the string itself states the demanded parts (judged where the
    generator knows that no token of the string can carry a demanded part, single-reading pipelines);
R1  strict result in {None, non-strict result} in the same world;
R2  a non-None STRICT_PARSING result is identical under both clocks / all bases,
    and whether a result is produced at all does not depend on the reference;
R3  with REQUIRE_PARTS, each required part of the result is identical likewise.
"""
import datetime as dt

from simkit import clockdrive, world
from simkit.canon import canon_dt, dec_value, enc_value

PROP = "C10"
LEVEL = "exploration"
RULE = (
    "one evaluation = one (string, parser selection, strictness setting, language) case evaluated under 2 simulated clocks x {no base, 2 RELATIVE_BASE values} x {strict off, on}; "
    "non-trivial = the non-strict results under the two clocks differ (the reference was in play); distinct by (present parts, parser selection, strictness setting, language, string shape)"
)
ASSUMPTIONS = [
    "relational oracle only: no expected values, so a wrong answer that is wrong the same way everywhere is not this property's business",
    "with PREFER_DATES_FROM 'past'/'future' (20 % of the cases) only R1 is judged: a two-digit year is then moved by a century relative to the reference, which the statement does not address, so R2/R3 across references would ask for more than is stated",
    "both worlds of a case share the process zone (the property quantifies over reference times; timestamps are rendered in the process zone by design)",
    "frozen clock per call (a relation between calls needs each call to have one reference)",
]
EXPECTED_PROBES = {"aware_reference": 1, "corpus_string": 1, "r0_judged": 1, "clock_in_play": 1, "strict_value": 1, "strict_none": 1, "custom_format_used": 1, "timestamp": 1, "require_parts": 1, "localized": 1}

EN_MONTHS = ["January", "February", "March", "April", "May", "June", "July", "August", "September", "October", "November", "December"]
EN_DAYS = ["Monday", "Tuesday", "Wednesday", "Thursday", "Friday", "Saturday", "Sunday"]
# never 'relative-time': the property is about the absolute / custom-format / timestamp parsers, and
# a weekday or month name that doubles as a unit word (pa-Arab: Saturday = "week") would turn a
# generated partial date into a relative phrase, to which strictness does not apply
PARSER_SETS = [["timestamp", "custom-formats", "absolute-time"], ["absolute-time"], ["absolute-time"], ["absolute-time"], ["no-spaces-time"], ["custom-formats", "absolute-time"], ["timestamp", "absolute-time"], ["timestamp", "custom-formats", "absolute-time", "no-spaces-time"], ["absolute-time", "no-spaces-time"]]
PART_SUBSETS = [[], ["day"], ["month"], ["year"], ["day", "month"], ["day", "year"], ["month", "year"], ["day", "month", "year"]]


class Context:
    def __init__(self, rng, tier):
        from dateparser.data import languages_info
        import importlib

        self.zone = rng.choice(world.ZONE_POOL) if rng.random() < 0.5 else "UTC"
        self.langs = ["en"] + rng.sample([l for l in languages_info.language_order if l != "en"], 3)
        self.info = {}
        for L in self.langs:
            info = importlib.import_module("dateparser.data.date_translation_data." + L).info
            months = [[n for n in info.get(k.lower(), []) if n and not any(c.isdigit() for c in n)] for k in EN_MONTHS]
            days = [[n for n in info.get(k.lower(), []) if n and not any(c.isdigit() for c in n)] for k in EN_DAYS]
            self.info[L] = (months, days)
        self.corpus = harvest_corpus()


_CORPUS = None


def harvest_corpus():
    """The multilingual strings of the tree's own test tables (first string arguments of param(...)
    rows), used as workload only: the relations R1-R3 need no expected values."""
    global _CORPUS
    if _CORPUS is not None:
        return _CORPUS
    import ast
    import os

    from simkit import env

    out = set()
    for name in ("test_date_parser.py", "test_date.py", "test_parser.py", "test_languages.py", "test_clean_api.py", "test_settings.py", "test_timezone_parser.py", "test_jalali.py"):
        try:
            with open(os.path.join(env.repo_dir(), "tests", name), encoding="utf-8") as f:
                tree = ast.parse(f.read())
        except Exception:  # noqa  (a tree without that file just contributes nothing)
            continue
        for n in ast.walk(tree):
            if isinstance(n, ast.Call) and getattr(n.func, "id", None) == "param":
                for a in list(n.args[:2]) + [k.value for k in n.keywords if k.arg in ("date_string", "datetime_string")]:
                    if isinstance(a, ast.Constant) and isinstance(a.value, str) and 4 <= len(a.value) <= 60 and any(ch.isdigit() for ch in a.value):
                        out.add(a.value)
    _CORPUS = sorted(out)
    return _CORPUS


def two_clocks(rng):
    """Two instants whose year, month and day all differ."""
    y1, y2 = rng.sample(range(1995, 2036), 2)
    m1, m2 = rng.sample(range(1, 13), 2)
    d1, d2 = rng.sample(range(1, 29), 2)
    t1 = dt.datetime(y1, m1, d1, rng.randrange(24), rng.randrange(60), rng.randrange(60))
    t2 = dt.datetime(y2, m2, d2, rng.randrange(24), rng.randrange(60), rng.randrange(60))
    return t1, t2


def gen_case(rng, ctx):
    L = rng.choice(ctx.langs)
    months, days = ctx.info[L]
    import calendar as _cal

    y_, m_ = rng.randrange(1990, 2040), rng.randrange(1, 13)
    last_ = _cal.monthrange(y_, m_)[1]
    d = dt.datetime(y_, m_, rng.choice([rng.randrange(1, 29), rng.randrange(1, last_ + 1), last_, last_]), rng.randrange(24), rng.randrange(60))
    if rng.random() < 0.04:
        d = d.replace(year=rng.choice([1992, 1996, 2000, 2004, 2012, 2016, 2024, 2032]), month=2, day=29)  # a leap day, whatever the clocks' years are
    kind = rng.choice(["words", "words", "words", "numeric", "format", "format", "timestamp"])
    if ctx.corpus and rng.random() < 0.04:
        kind = "corpus"
    present = []
    fmts = None
    localized = False
    if kind == "corpus":
        s = rng.choice(ctx.corpus)
        present = ["corpus"]
        lang = None if rng.random() < 0.85 else "en"
    elif kind == "timestamp":
        ts = rng.randrange(10 ** 9, 2 * 10 ** 9)
        s = str(ts) + rng.choice(["", "", "123", "123456"])
        present = ["timestamp"]
        lang = rng.choice(["en", "en", L])
    elif kind == "numeric":
        sep = rng.choice(["/", ".", "-"])
        shape = rng.choice(["dmy", "dm", "my", "y", "ymd", "d", "dmy2", "ym", "j", "wk", "isowk"])
        s = {
            "dmy": "%02d%s%02d%s%04d" % (d.day, sep, d.month, sep, d.year), "dm": "%02d%s%02d" % (d.day, sep, d.month), "my": "%02d%s%04d" % (d.month, sep, d.year),
            "y": "%04d" % d.year, "ymd": "%04d%s%02d%s%02d" % (d.year, sep, d.month, sep, d.day), "d": "%d" % d.day,
            "dmy2": "%02d%s%02d%s%02d" % (d.day, sep, d.month, sep, d.year % 100), "ym": "%04d%s%02d" % (d.year, sep, d.month),
            "j": "%03d" % rng.choice([1, 31, 59, 60, 61, 200, 213, 365]),
            "wk": "%04d-W%02d-%d" % (d.year, int(d.strftime("%W")), int(d.strftime("%w"))), "isowk": "%04d-W%02d-%d" % (d.isocalendar()[0], d.isocalendar()[1], d.isocalendar()[2]),
        }[shape]
        present = [shape]
        if rng.random() < 0.3:
            s += " %02d:%02d" % (d.hour, d.minute)
            present.append("time")
        lang = rng.choice(["en", "en", L, L]) if rng.random() < 0.985 else None
    else:
        parts = [p for p in ("weekday", "day", "month", "year", "time") if rng.random() < 0.55]
        if not parts:
            parts = [rng.choice(["day", "month", "year", "weekday", "time"])]
        present = parts
        use_loc = L != "en" and months[d.month - 1] and rng.random() < 0.6
        if use_loc:
            all_m = {n.lower() for ml in months for n in ml}
            all_d = {n.lower() for dl in days for n in dl}
            # a name that is both a weekday and a month in this language is no use for stating one of them
            m_ok = [n for n in months[d.month - 1] if n.lower() not in all_d and sum(n.lower() in {x.lower() for x in ml} for ml in months) == 1]
            d_ok = [n for n in days[d.weekday()] if n.lower() not in all_m]
            use_loc = bool(m_ok)
        if use_loc:
            mname = rng.choice(m_ok)
            wname = rng.choice(d_ok) if d_ok else EN_DAYS[d.weekday()]
            localized = True
            lang = L
        else:
            mname, wname = EN_MONTHS[d.month - 1], EN_DAYS[d.weekday()]
            if rng.random() < 0.3:
                mname, wname = mname[:3], wname[:3]
            lang = "en" if rng.random() < 0.985 else None
        toks, ftoks = [], []
        order = rng.choice(["wdmy", "wmdy", "ymd"])
        seq = {"wdmy": ["weekday", "day", "month", "year"], "wmdy": ["weekday", "month", "day", "year"], "ymd": ["year", "month", "day", "weekday"]}[order]
        for p in seq:
            if p not in parts:
                continue
            if p == "weekday":
                toks.append(wname)
                ftoks.append("%A" if len(wname) > 3 or localized else "%a")
            elif p == "day":
                toks.append("%d" % d.day if rng.random() < 0.5 else "%02d" % d.day)
                ftoks.append("%d")
            elif p == "month":
                toks.append(mname)
                ftoks.append("%B" if len(mname) > 3 or localized or mname == "May" else "%b")
            elif p == "year":
                toks.append("%04d" % d.year)
                ftoks.append("%Y")
        if "time" in parts:
            toks.append("%02d:%02d" % (d.hour, d.minute))
            ftoks.append("%H:%M")
        s = " ".join(toks)
        if kind == "format":
            fmts = [" ".join(ftoks)]
            if rng.random() < 0.3:
                fmts.insert(0, "%Y-%m-%d")
    if kind == "numeric" and (rng.random() < 0.35 or present[0] in ("j", "wk", "isowk")):
        f = s
        shape = present[0]
        fm = {"dmy": "%d{s}%m{s}%Y", "dm": "%d{s}%m", "my": "%m{s}%Y", "y": "%Y", "ymd": "%Y{s}%m{s}%d", "d": "%d", "dmy2": "%d{s}%m{s}%y", "ym": "%Y{s}%m", "j": "%j", "wk": "%Y-W%W-%w", "isowk": "%G-W%V-%u"}[shape]
        sep = next((c for c in s if c in "/.-"), "/")
        fmts = [fm.format(s=sep) + (" %H:%M" if "time" in present else "")]
    t1, t2 = two_clocks(rng)
    b1, b2 = two_clocks(rng)
    extra = {}
    if rng.random() < 0.3:
        extra["PREFER_DAY_OF_MONTH"] = rng.choice(["first", "last", "current"])
    if rng.random() < 0.3:
        extra["PREFER_MONTH_OF_YEAR"] = rng.choice(["first", "last", "current"])
    if rng.random() < 0.2:
        extra["DATE_ORDER"] = rng.choice(["DMY", "MDY", "YMD"])
    if (kind == "numeric" and present and present[0] == "dmy2" and rng.random() < 0.7) or rng.random() < 0.2:
        # non-default preference: only R1 (same world, strict on vs off) is judged then, because a
        # two-digit year is legitimately moved by a century relative to the reference
        extra["PREFER_DATES_FROM"] = rng.choice(["past", "future"])
    ps = rng.choice(PARSER_SETS)
    if kind == "timestamp" and rng.random() < 0.6:
        ps = ["timestamp"]
    if fmts:
        ps = ["custom-formats"] if rng.random() < 0.6 else (ps if "custom-formats" in ps else ["custom-formats"] + ps)
    if ps is not None:
        extra["PARSERS"] = ps
    stricts = [{"STRICT_PARSING": True}]
    rp = rng.choice(PART_SUBSETS[1:])
    stricts.append({"REQUIRE_PARTS": rp})
    if rng.random() < 0.2:
        stricts.append({"STRICT_PARSING": True, "REQUIRE_PARTS": rng.choice(PART_SUBSETS[1:])})
    if rng.random() < 0.12:
        # aware reference times (different fixed offsets) together with an output zone / awareness
        # setting: the zone of the REFERENCE must not leak into a strict result.  STRICT_PARSING only:
        # with REQUIRE_PARTS the parts completed from the reference may legitimately move a converted
        # result across midnight.
        o1, o2 = rng.sample([540, -300, 330, 60, 0, -480, 765], 2)
        b1 = b1.replace(tzinfo=dt.timezone(dt.timedelta(minutes=o1)))
        if rng.random() < 0.7:
            b2 = b2.replace(tzinfo=dt.timezone(dt.timedelta(minutes=o2)))
        if rng.random() < 0.6:
            extra["TO_TIMEZONE"] = rng.choice(["UTC", "Asia/Tokyo", "America/New_York", "Asia/Kolkata"])
        else:
            extra["RETURN_AS_TIMEZONE_AWARE"] = True
        extra.pop("PREFER_DATES_FROM", None)
        stricts = [{"STRICT_PARSING": True}]
    return {
        "zone": ctx.zone, "clock_us": world.to_us(t1), "clock2_us": world.to_us(t2), "bases": [enc_value(b1), enc_value(b2)],
        "string": s, "lang": lang, "formats": fmts, "extra": extra, "stricts": stricts, "present": present, "kind": kind, "localized": localized,
    }


def describe(case):
    return {k: case[k] for k in ("string", "lang", "formats", "extra", "stricts", "zone")} | {"clocks": [str(world.from_us(case["clock_us"])), str(world.from_us(case["clock2_us"]))], "bases": [str(dec_value(b)) for b in case["bases"]]}


def simplify(case):
    for k in list(case["extra"]):
        yield dict(case, extra={x: v for x, v in case["extra"].items() if x != k})
    if len(case["stricts"]) > 1:
        for s in case["stricts"]:
            yield dict(case, stricts=[s])
    if case["zone"] != "UTC":
        yield dict(case, zone="UTC")
    if case["lang"] is None:
        yield dict(case, lang="en")


def stated_parts(case):
    """Which of day / month / year can possibly be carried by the date tokens the generator wrote
    (None = not judged for this kind of string)."""
    kind, present = case["kind"], case["present"]
    if kind in ("words", "format"):
        parts = [p for p in present if p in ("day", "month", "year")]
        can = set(parts)
        # a day number (<= 31) could also be read as a month (<= 12) or a two-digit year; a 4-digit year only as a year
        if "day" in parts:
            can |= {"month", "year"}
        return {"can_state": can, "ntokens": len(parts)}
    if kind == "numeric":
        shape = present[0]
        if shape in ("j", "wk", "isowk"):
            return None  # %j states day and month at once; week-number formats are judged by R1-R3 only
        n = {"dmy": 3, "dm": 2, "my": 2, "y": 1, "ymd": 3, "d": 1, "dmy2": 3, "ym": 2}[shape]
        if shape == "y":
            return {"can_state": {"year"}, "ntokens": 1}
        # short numbers are interchangeable between day / month / two-digit year
        return {"can_state": {"day", "month", "year"}, "ntokens": n}
    return None


def pipeline(case):
    """'single' when exactly one reading can produce the result (one language, one parser,
    raw-format attempt included); 'multi' when a later parser or locale can step in after
    strictness rejected the first reading."""
    ps = case["extra"].get("PARSERS")
    if case["lang"] is None or ps is None:
        return "multi"
    if case["formats"]:
        return "single" if ps == ["custom-formats"] and len(case["formats"]) == 1 else "multi"
    return "single" if len(ps) == 1 else "multi"


DEFAULT_PARSERS = ["timestamp", "relative-time", "custom-formats", "absolute-time"]


def explain_fallback(dateparser, case, clock_us, base, strict, strict_value):
    """Is the value a multi-reading pipeline returned under strictness exactly what ONE of its
    single readings (one parser, the locale that answered) returns under the same strictness?
    Then the mechanism is the known one: strictness rejected the first reading and the pipeline
    went on to the next parser / locale.  Returns (parser, locale) or None."""
    from dateparser.date import DateDataParser

    clk = world.clock()
    settings = dict(case["extra"])
    if base is not None:
        settings["RELATIVE_BASE"] = base
    settings.update(strict)
    try:
        clk.set(clock_us, ["frozen"])
        kw = {"languages": [case["lang"]]} if case["lang"] else {}
        dd = DateDataParser(settings=dict(settings), **kw).get_date_data(case["string"], list(case["formats"]) if case["formats"] else None)
        loc = dd.locale
    except Exception:  # noqa
        return None
    cands = [l for l in [loc, case["lang"]] if l]
    parsers = list(case["extra"].get("PARSERS") or DEFAULT_PARSERS)
    for L in cands or [None]:
        for pz in parsers:
            st = dict(settings, PARSERS=[pz])
            kw = {"languages": [L.split("-")[0]] if L and "-" in L and L.split("-")[0] else ([L] if L else None)}
            try:
                clk.set(clock_us, ["frozen"])
                args = {"settings": st}
                if L:
                    args["locales" if "-" in L else "languages"] = [L]
                if case["formats"] and pz == "custom-formats":
                    args["date_formats"] = list(case["formats"])
                r = dateparser.parse(case["string"], **args)
            except Exception:  # noqa
                continue
            if r is not None and r == strict_value:
                return (pz, L)
    if case["formats"]:
        # the raw-string attempt made before any language work
        try:
            clk.set(clock_us, ["frozen"])
            r = dateparser.parse(case["string"], date_formats=list(case["formats"]), languages=["en"], settings=dict(settings, PARSERS=["custom-formats"]))
            if r is not None and r == strict_value:
                return ("custom-formats(raw)", None)
        except Exception:  # noqa
            pass
    return None


def _call(dateparser, case, clock_us, base, strict):
    clk = world.clock()
    clk.set(clock_us, ["frozen"])
    settings = dict(case["extra"])
    if base is not None:
        settings["RELATIVE_BASE"] = base
    if strict:
        settings.update(strict)
    kw = {}
    if case["formats"]:
        kw["date_formats"] = list(case["formats"])
    if case["lang"]:
        kw["languages"] = [case["lang"]]
    if settings:
        kw["settings"] = settings
    try:
        r = dateparser.parse(case["string"], **kw)
        return ("ok", r)
    except Exception as e:  # noqa
        return ("exc", type(e).__name__)


def eval_case(case):
    import dateparser

    world.set_zone(case["zone"])
    clk = world.clock()
    n0 = len(clk.reads)
    bases = [None] + [dec_value(b) for b in case["bases"]]
    clocks = [case["clock_us"], case["clock2_us"]]
    plain = {}
    for ci, cu in enumerate(clocks):
        for bi, b in enumerate(bases):
            plain[(ci, bi)] = _call(dateparser, case, cu, b, None)
    stats = {}
    vals = {repr(v) for v in plain.values()}
    in_play = len(vals) > 1
    if in_play:
        stats["clock_in_play"] = 1
    stats["pipeline_" + pipeline(case)] = 1
    if case["formats"]:
        stats["custom_format_used"] = 1
    if case["kind"] == "timestamp":
        stats["timestamp"] = 1
    if case["localized"]:
        stats["localized"] = 1
    if case["kind"] == "corpus":
        stats["corpus_string"] = 1
    if any(b is not None and b.tzinfo is not None for b in bases):
        stats["aware_reference"] = 1
    problems = []
    out_log = {"plain": {"%d,%d" % k: (v[0], canon_dt(v[1]) if v[0] == "ok" else v[1]) for k, v in plain.items()}}
    for strict in case["stricts"]:
        res = {}
        for ci, cu in enumerate(clocks):
            for bi, b in enumerate(bases):
                res[(ci, bi)] = _call(dateparser, case, cu, b, strict)
        out_log[repr(sorted(strict.items()))] = {"%d,%d" % k: (v[0], canon_dt(v[1]) if v[0] == "ok" else v[1]) for k, v in res.items()}
        name = "+".join(sorted(strict))
        if "REQUIRE_PARTS" in strict:
            stats["require_parts"] = 1
        # R1
        for k, v in res.items():
            p = plain[k]
            if v[0] == "exc":
                if p[0] != "exc":
                    problems.append(("R1-strict-raises", name, "world %s: strict raised %s, non-strict returned %r" % (k, v[1], p[1])))
            elif v[1] is not None:
                if p[0] != "ok" or p[1] != v[1] or (p[1] is not None and (p[1].utcoffset(), p[1].tzname()) != (v[1].utcoffset(), v[1].tzname())):
                    expl = None
                    if pipeline(case) == "multi":
                        expl = explain_fallback(dateparser, case, clocks[k[0]], bases[k[1]], strict, v[1])
                    problems.append(("R1-strict-changes-value", name, "world %s: strict %r vs non-strict %r%s" % (k, v[1], p[1], "; the strict value is what the single reading %s yields" % (expl,) if expl else ""), expl))
        oks = [v[1] for v in res.values() if v[0] == "ok"]
        nonnull = [v for v in oks if v is not None]
        if nonnull:
            stats["strict_value"] = 1
        if len(nonnull) < len(oks):
            stats["strict_none"] = 1
        if case["extra"].get("PREFER_DATES_FROM") in ("past", "future"):
            stats["r1_only_non_default_preference"] = 1
            continue
        if "STRICT_PARSING" in strict:
            if len({repr(v) for v in nonnull}) > 1:
                problems.append(("R2-strict-result-depends-on-reference", name, "results %s" % sorted({str(v) for v in nonnull})))
            elif nonnull and len(nonnull) < len(oks):
                problems.append(("R2-strict-noneness-depends-on-reference", name, "some worlds None, others %s" % nonnull[0]))
        else:
            for part in strict["REQUIRE_PARTS"]:
                pv = {getattr(v, part) for v in nonnull}
                if len(pv) > 1:
                    problems.append(("R3-required-part-depends-on-reference", name + ":" + part, "%s values %s" % (part, sorted(pv))))
            # (whether a REQUIRE_PARTS result exists at all may depend on the reference: the parts that are
            # NOT required are completed from it, and "31" cannot be completed in a 30-day reference month;
            # the statement only says that a result needs the required parts to be stated)
    # R0: a result only if the string itself states the demanded parts.  The generator knows which
    # date tokens it wrote; judged only where no other reading can supply the part: single-reading
    # pipelines, and a part counts as "cannot be stated" only if no token could possibly carry it.
    st_parts = stated_parts(case)
    single_parser = (case["extra"].get("PARSERS") or [None])[0]
    if st_parts is not None and pipeline(case) == "single" and single_parser in ("absolute-time", "custom-formats"):
        for strict in case["stricts"]:
            need = ["day", "month", "year"] if strict.get("STRICT_PARSING") else list(strict.get("REQUIRE_PARTS", []))
            lacking = [p for p in need if p not in st_parts["can_state"]]
            if not lacking and not (strict.get("STRICT_PARSING") and st_parts["ntokens"] < 3):
                continue
            stats["r0_judged"] = 1
            for ci, cu in enumerate(clocks):
                v = _call(dateparser, case, cu, bases[1], strict)
                if v[0] == "ok" and v[1] is not None:
                    problems.append(("R0-result-although-part-not-stated", "+".join(sorted(strict)), "the string %r states no %s, yet strict parsing returned %r" % (case["string"], "/".join(lacking) or "third date part", v[1])))
                    break
    reads = len(clk.reads) - n0
    key = None
    if in_play:
        key = (pipeline(case), ",".join(case["present"]), ",".join(case["extra"].get("PARSERS") or ["default"]), "fmt" if case["formats"] else "nofmt", case["lang"] or "auto", ";".join("+".join(sorted(s)) + (":" + ",".join(s.get("REQUIRE_PARTS", []))) for s in case["stricts"]))
    if not problems:
        return {"ok": True, "key": key, "stats": stats, "reads": reads, "outcome": out_log}
    p = problems[0]
    used_fmt = bool(case["formats"])
    sig = {"relation": p[0], "setting": p[1].split(":")[0], "custom_formats_given": used_fmt, "kind": case["kind"], "pipeline": pipeline(case)}
    if p[0] == "R1-strict-changes-value" and pipeline(case) == "multi":
        sig["explained_by_single_reading"] = bool(len(p) > 3 and p[3])
    detail = "%s [%s] parse(%r, date_formats=%r, languages=%r, settings=%r + strict): %s" % (p[0], p[1], case["string"], case["formats"], case["lang"], case["extra"], p[2])
    return {"ok": False, "key": key, "sig": sig, "detail": detail, "stats": stats, "reads": reads, "outcome": out_log, "expected": "relations R1-R3"}


def main(args):
    nruns, ncases = (128, 100) if args.tier == "quick" else (3000, 150)
    return clockdrive.drive(__import__("checks.c10_strict", fromlist=["x"]), args, nruns, ncases, 10)
