"""C04 -- relative expressions are exact calendar arithmetic on the base.

The simulator owns the source of the base: (i) no RELATIVE_BASE, the base is the
simulated clock expressed in TIMEZONE (process zone for 'local'); (ii)
RELATIVE_BASE given while the simulated clock and process zone are skewed
somewhere else entirely -- then they must be irrelevant.  Oracle: independent
calendar arithmetic (oracles/calarith.py, no dateutil).
"""
import datetime as dt

from oracles import calarith
from simkit import clockdrive, world
from simkit.canon import canon_dt, dec_value, enc_value

PROP = "C04"
LEVEL = "exploration"
RULE = (
    "one evaluation = one English relative phrase parsed with DateDataParser(languages=['en']) under a simulated clock/zone, base from the clock (route i) or from RELATIVE_BASE with the clock skewed (route ii); "
    "non-trivial = the arithmetic carried into a calendar field beyond the one counted (clamp, month/year rollover, overflow) or the base came from the clock; "
    "distinct by (units, direction, carry class, boundary class of the base, TIMEZONE class, TO_TIMEZONE class, base source, tick policy)"
)
ASSUMPTIONS = [
    "several units add up: years/decades/months are one shift of 12*y+m months clamped once to the last valid day, then weeks/days/sub-day units are added as an exact timedelta, whatever the order of the units in the phrase",
    "when TIMEZONE (or the process zone for 'local') has a UTC-offset change between base and result, only the wall-clock result without TO_TIMEZONE/awareness is compared (wall-clock vs instant arithmetic differ by the shift and the statement does not pick one)",
    "under a ticking clock the result must be the oracle's answer for one of the instants the call read",
    "bare counts without ago/in are not generated (the statement defines only the directed forms)",
    "pytz gives the expression of the simulated instant in TIMEZONE / process zone",
]
EXPECTED_PROBES = {"aware_relative_base": 1, "route_clock": 1, "route_base_skewed": 1, "clamped": 1, "overflow_none": 1, "year_rollover": 1, "time_override": 1, "to_timezone": 1, "tick": 1, "dst_crossing_relaxed": 1, "period_checked": 1}

UNITS = ["second", "minute", "hour", "day", "week", "month", "year", "decade"]
SUBDAY = {"second", "minute", "hour"}
FIXED = [
    ("now", {"second": 0}, -1), ("today", {"day": 0}, -1), ("yesterday", {"day": 1}, -1), ("tomorrow", {"day": 1}, +1),
    ("last week", {"week": 1}, -1), ("next week", {"week": 1}, +1), ("last month", {"month": 1}, -1), ("next month", {"month": 1}, +1),
    ("last year", {"year": 1}, -1), ("next year", {"year": 1}, +1), ("last decade", {"decade": 1}, -1), ("next decade", {"decade": 1}, +1),
    ("day before yesterday", {"day": 2}, -1), ("day after tomorrow", {"day": 2}, +1),
]
TZ_SETTINGS = [None, None, "UTC", "America/New_York", "Europe/London", "Asia/Kolkata", "Asia/Kathmandu", "Asia/Tokyo", "Australia/Lord_Howe", "America/St_Johns", "Pacific/Kiritimati", "America/Sao_Paulo", "Africa/Cairo", "Europe/Moscow"]


class Context:
    def __init__(self, rng, tier):
        self.zone = rng.choice(world.ZONE_POOL) if rng.random() < 0.6 else "UTC"


def draw_count(rng, unit):
    r = rng.random()
    if r < 0.5:
        n = rng.randrange(0, 13)
    elif r < 0.8:
        n = rng.randrange(13, 400)
    elif r < 0.95:
        n = rng.randrange(400, 5001)
    else:
        n = rng.choice([0, 1, 12, 24, 28, 29, 30, 31, 52, 60, 100, 365, 366, 1000, 4999, 5000])
    if unit in SUBDAY and rng.random() < 0.15:
        return rng.choice([0.5, 1.5, 2.5, 0.25, 10.5, 0.1, 3.75])
    return n


def fmt_count(n, rng):
    if isinstance(n, float):
        return repr(n)  # decimal point only: a decimal comma inside a comma-separated list of units is ambiguous
    return str(n)


def gen_phrase(rng):
    if rng.random() < 0.2:
        text, units, sign = rng.choice(FIXED)
        return text, dict(units), sign
    k = rng.choice([1, 1, 1, 2, 2, 3])
    us = rng.sample(UNITS, k)
    if rng.random() < 0.6:
        us.sort(key=UNITS.index, reverse=True)  # else: phrase order as drawn (e.g. "1 day 1 month ago")
    units = {}
    parts = []
    for u in us:
        n = draw_count(rng, u)
        units[u] = n
        plural = "" if n == 1 and rng.random() < 0.8 else "s"
        parts.append("%s %s%s" % (fmt_count(n, rng), u, plural))
    sep = rng.choice([" ", ", ", " and "])
    body = sep.join(parts)
    sign = rng.choice([-1, +1])
    text = (body + " ago") if sign < 0 else ("in " + body)
    return text, units, sign


def gen_base_wall(rng, lo, hi):
    """A wall-clock datetime biased to month ends, leap days, midnight, year ends."""
    import calendar

    y = rng.randrange(lo, hi + 1)
    r = rng.random()
    if r < 0.25:
        m = rng.randrange(1, 13)
        d = calendar.monthrange(y, m)[1] - rng.choice([0, 0, 0, 1])
    elif r < 0.35:
        leap = [yy for yy in range(lo, hi + 1) if calendar.isleap(yy)]
        y = rng.choice(leap)
        m, d = 2, 29
    elif r < 0.45:
        m, d = rng.choice([(12, 31), (1, 1), (3, 1), (2, 28), (1, 31), (1, 30), (1, 29)])
    else:
        m = rng.randrange(1, 13)
        d = rng.randrange(1, 29)
    t = rng.random()
    if t < 0.2:
        hh, mm, ss, us = 0, 0, 0, 0
    elif t < 0.3:
        hh, mm, ss, us = 23, 59, 59, 999999
    else:
        hh, mm, ss, us = rng.randrange(24), rng.randrange(60), rng.randrange(60), rng.choice([0, rng.randrange(10 ** 6)])
    return dt.datetime(y, m, d, hh, mm, ss, us)


def gen_case(rng, ctx):
    import pytz

    zone = ctx.zone
    text, units, sign = gen_phrase(rng)
    clock_time = None
    if rng.random() < 0.2:
        h, mi = rng.randrange(24), rng.randrange(60)
        style = rng.choice(["hm", "hm_at", "ampm", "hms", "hmsf"])
        if style == "ampm":
            clock_time = [h, 0, 0]
            text += ", %d %s" % ((h % 12) or 12, "AM" if h < 12 else "PM")
        elif style in ("hms", "hmsf"):
            sec = rng.randrange(60)
            us_ = rng.choice([250000, 999999, 1, 500000]) if style == "hmsf" else 0
            clock_time = [h, mi, sec, us_]
            text += " at %02d:%02d:%02d" % (h, mi, sec) + ((".%06d" % us_).rstrip("0") if us_ else "")
        else:
            clock_time = [h, mi, 0]
            text += (" at " if style == "hm_at" else " ") + "%02d:%02d" % (h, mi)
    settings = {}
    tzs = rng.choice(TZ_SETTINGS)
    if tzs:
        settings["TIMEZONE"] = tzs
    if rng.random() < 0.3:
        settings["TO_TIMEZONE"] = rng.choice([z for z in TZ_SETTINGS if z])
    aw = rng.choice([None, None, True, False])
    if aw is not None:
        settings["RETURN_AS_TIMEZONE_AWARE"] = aw
    if rng.random() < 0.3:
        settings["PREFER_DATES_FROM"] = rng.choice(["past", "future", "current_period"])
    if rng.random() < 0.3:
        settings["RETURN_TIME_AS_PERIOD"] = True
    if rng.random() < 0.5:
        settings["PARSERS"] = ["relative-time"]
    route = "clock" if rng.random() < 0.55 else "base"
    edge = None
    if rng.random() < 0.04:
        # the result lands within hours of the first / last representable instant: with TO_TIMEZONE the
        # conversion itself may leave the range, and then the answer is None, not an exception
        route, edge = "base", rng.choice(["low", "high"])
        settings["TIMEZONE"] = "UTC"
        settings["TO_TIMEZONE"] = rng.choice(["America/New_York", "Asia/Tokyo", "Pacific/Kiritimati", "America/Sao_Paulo"])
    effective_zone = tzs or zone
    # zone databases (pytz / zoneinfo / C library) agree only on 1950..2037: outside that range
    # no zone conversion and no offset may be involved in what is compared
    no_conv = "TO_TIMEZONE" not in settings and aw is not True  # (an aware base keeps its own fixed offset: handled in eval)
    wide = no_conv and (route == "base" or (zone == "UTC" and effective_zone == "UTC"))
    lo, hi = (1800, 2200) if wide else (1952, 2035)
    wall = gen_base_wall(rng, lo, hi)
    policy = ["frozen"]
    if route == "clock":
        # place the clock so that its expression in TIMEZONE is `wall`
        tz = pytz.timezone(effective_zone)
        try:
            u = tz.localize(wall, is_dst=None).astimezone(pytz.utc).replace(tzinfo=None)
        except Exception:
            wall = wall.replace(hour=12, minute=0)
            u = tz.localize(wall, is_dst=False).astimezone(pytz.utc).replace(tzinfo=None)
        clock_us = world.to_us(u)
        if rng.random() < 0.25:
            policy = ["tick", rng.choice([1, 10 ** 6, 86400 * 10 ** 6])]
        base = None
    else:
        # RELATIVE_BASE given; the clock and the process zone are somewhere else entirely
        skew = dt.datetime(rng.randrange(1971, 2036), rng.randrange(1, 13), rng.randrange(1, 29), rng.randrange(24), rng.randrange(60))
        clock_us = world.to_us(skew)
        if edge:
            wall = dt.datetime(rng.randrange(1990, 2030), 1, 1, 0, 30) if edge == "low" else dt.datetime(rng.randrange(1990, 2030), 12, 31, 23, 30)
            n_ = wall.year - 1 if edge == "low" else 9999 - wall.year
            units, sign = {"year": n_}, (-1 if edge == "low" else +1)
            text = ("%d years ago" % n_) if edge == "low" else ("in %d years" % n_)
            clock_time = None
        base = enc_value(wall)
        if rng.random() < 0.25 and "TO_TIMEZONE" not in settings:
            # an *aware* RELATIVE_BASE (fixed offset): the arithmetic is on its own wall clock
            off = rng.choice([540, -210, 345, 0, -660, 60])
            base = {"__dt__": [wall.year, wall.month, wall.day, wall.hour, wall.minute, wall.second, wall.microsecond], "tz": {"offset_s": off * 60.0}}
        if rng.random() < 0.3:
            policy = ["tick", 86400 * 10 ** 6 * 31]
    return {"zone": zone, "clock_us": clock_us, "policy": policy, "route": route, "base": base, "phrase": text, "units": units, "sign": sign, "clock_time": clock_time, "settings": settings}


def describe(case):
    return {k: case[k] for k in ("phrase", "settings", "route", "zone", "policy")} | {"clock_utc": str(world.from_us(case["clock_us"])), "base": str(dec_value(case["base"])) if case["base"] else None}


def simplify(case):
    for k in list(case["settings"]):
        yield dict(case, settings={x: v for x, v in case["settings"].items() if x != k})
    if case["policy"][0] != "frozen":
        yield dict(case, policy=["frozen"])
    if case["zone"] != "UTC" and case["route"] == "base":
        yield dict(case, zone="UTC")


def offsets_between(zone, a, b):
    """Does `zone` change its UTC offset anywhere between naive wall times a and b (padded)?"""
    import pytz

    tz = pytz.timezone(zone)
    if not hasattr(tz, "_utc_transition_times"):
        return False
    lo, hi = (a, b) if a <= b else (b, a)
    lo -= dt.timedelta(days=2)
    hi += dt.timedelta(days=2)
    import bisect

    tt = tz._utc_transition_times
    i = bisect.bisect_left(tt, lo)
    return i < len(tt) and tt[i] <= hi


def eval_case(case):
    import pytz
    from dateparser.date import DateDataParser

    world.set_zone(case["zone"])
    clk = world.clock()
    clk.set(case["clock_us"], case["policy"])
    n0 = len(clk.reads)
    settings = dict(case["settings"])
    base = dec_value(case["base"]) if case["base"] else None
    if base is not None:
        settings["RELATIVE_BASE"] = base
    stats = {}
    try:
        p = DateDataParser(languages=["en"], settings=settings or None)
        dd = p.get_date_data(case["phrase"])
        res, period = dd.date_obj, dd.period
        outcome = ["ok", canon_dt(res), period]
    except Exception as e:  # noqa
        res, period = None, None
        outcome = ["exc", type(e).__name__]
    reads = [us for (_, us) in clk.reads[n0:]]
    tzs = settings.get("TIMEZONE")
    to_tz = settings.get("TO_TIMEZONE")
    aware = settings.get("RETURN_AS_TIMEZONE_AWARE")
    eff_zone = tzs or case["zone"]
    # candidate bases (wall clock in TIMEZONE)
    if case["route"] == "clock":
        stats["route_clock"] = 1
        tz = pytz.timezone(eff_zone)
        walls = []
        for us in (reads or [case["clock_us"]]):
            walls.append(pytz.utc.localize(world.from_us(us)).astimezone(tz).replace(tzinfo=None))
        if case["policy"][0] == "tick":
            stats["tick"] = 1
    else:
        stats["route_base_skewed"] = 1
        walls = [base.replace(tzinfo=None)]
        if base.tzinfo is not None:
            stats["aware_relative_base"] = 1
    exp_walls = set()
    carry = set()
    for w in walls:
        cands, info = calarith.shift_all(w, case["units"], case["sign"])
        carry |= info
        for c in cands:
            if c is not None and case["clock_time"]:
                ct_ = case["clock_time"]
                c = c.replace(hour=ct_[0], minute=ct_[1], second=ct_[2] if len(ct_) > 2 else 0, microsecond=ct_[3] if len(ct_) > 3 else 0)
            exp_walls.add(c)
    for c in carry:
        stats[c] = 1
    if case["clock_time"]:
        stats["time_override"] = 1
    problems = []
    # expected period
    exp_period = calarith.period_of(case["units"])
    if None in exp_walls and len(exp_walls) == 1:
        stats["overflow_none"] = 1
        if outcome[0] != "ok" or res is not None:
            problems.append(("overflow-not-none", "expected None (result leaves the representable range), got %r" % (outcome,)))
    elif outcome[0] != "ok":
        problems.append(("exception", outcome[1]))
    elif res is None:
        conv_overflow = False
        if to_tz and None not in exp_walls:
            tzA_, tzB_ = pytz.timezone(eff_zone), pytz.timezone(to_tz)
            for w in exp_walls:
                try:
                    tzA_.localize(w).astimezone(tzB_)
                except (OverflowError, ValueError):
                    conv_overflow = True
        if conv_overflow:
            stats["conversion_overflow_none"] = 1
        elif None not in exp_walls:
            problems.append(("none", "expected one of %s" % sorted(map(str, exp_walls))[:3]))
    else:
        real_walls = {w for w in exp_walls if w is not None}
        crossing = any(offsets_between(eff_zone, b, w) for b in walls for w in real_walls) if eff_zone != "UTC" else False
        if base is not None and base.tzinfo is not None:
            crossing = False  # fixed-offset aware base: TIMEZONE does not re-interpret it
        if to_tz:
            stats["to_timezone"] = 1
        if crossing:
            stats["dst_crossing_relaxed"] = 1
        if not to_tz:
            got_wall = res.replace(tzinfo=None)
            if got_wall not in real_walls:
                problems.append(("wrong-wall-clock", "got %s, expected one of %s" % (got_wall, sorted(map(str, real_walls))[:3])))
        elif not crossing:
            tzA = pytz.timezone(eff_zone)
            tzB = pytz.timezone(to_tz)
            exp_b = set()
            for w in real_walls:
                try:
                    inst = tzA.localize(w, is_dst=None)
                except Exception:
                    continue
                try:
                    exp_b.add(inst.astimezone(tzB).replace(tzinfo=None))
                except OverflowError:
                    exp_b.add(None)
            if exp_b and res.replace(tzinfo=None) not in exp_b:
                problems.append(("wrong-to-timezone", "got %s, expected one of %s" % (res.replace(tzinfo=None), sorted(map(str, exp_b))[:3])))
        # awareness
        if aware is True and res.tzinfo is None:
            problems.append(("awareness", "RETURN_AS_TIMEZONE_AWARE=True returned a naive datetime"))
        if aware is not True and res.tzinfo is not None:
            problems.append(("awareness", "naive result expected, got tzinfo %r" % (res.tzinfo,)))
        if aware is True and res.tzinfo is not None and base is not None and base.tzinfo is not None and not to_tz:
            if res.utcoffset() != base.utcoffset():
                problems.append(("wrong-offset", "got offset %s, expected the base's own %s" % (res.utcoffset(), base.utcoffset())))
        elif aware is True and res.tzinfo is not None and not crossing:
            target = pytz.timezone(to_tz or eff_zone)
            try:
                exp_off = target.localize(res.replace(tzinfo=None), is_dst=None).utcoffset()
                if res.utcoffset() != exp_off:
                    problems.append(("wrong-offset", "got offset %s, expected %s" % (res.utcoffset(), exp_off)))
            except Exception:
                pass
        # period
        stats["period_checked"] = 1
        allowed = {exp_period}
        if case["clock_time"] and settings.get("RETURN_TIME_AS_PERIOD"):
            allowed = {"time"}
        if period not in allowed:
            problems.append(("wrong-period", "got %r, expected %s" % (period, sorted(allowed))))
    tzc = "local" if not tzs else ("utc" if tzs == "UTC" else "named")
    key = None
    nontrivial = (case["route"] == "clock") or bool(carry)
    if nontrivial:
        key = (",".join(sorted(case["units"])), case["sign"], ",".join(sorted(carry)), tzc, "to" if to_tz else "-", case["route"], case["policy"][0], "t" if case["clock_time"] else "-")
    if not problems:
        return {"ok": True, "key": key, "stats": stats, "reads": len(reads), "outcome": outcome}
    pr = problems[0]
    sig = {"kind": pr[0], "route": case["route"], "units": sorted(case["units"]), "tz_setting": tzc, "to_timezone": bool(to_tz), "clock_time": bool(case["clock_time"])}
    detail = "%s: DateDataParser(['en'], settings=%r).get_date_data(%r) under clock %s (%s, %s) -> %s / %r; %s" % (
        pr[0], {k: (str(v) if isinstance(v, dt.datetime) else v) for k, v in settings.items()}, case["phrase"], world.from_us(case["clock_us"]), case["zone"], case["policy"], res, period, pr[1])
    return {"ok": False, "key": key, "sig": sig, "detail": detail, "stats": stats, "reads": len(reads), "outcome": outcome, "expected": sorted(map(str, exp_walls))[:4]}


def main(args):
    nruns, ncases = (200, 500) if args.tier == "quick" else (8000, 700)
    return clockdrive.drive(__import__("checks.c04_relative", fromlist=["x"]), args, nruns, ncases, 4)
