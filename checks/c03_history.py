"""C03 -- results depend only on the call's arguments, never on call history.

System under simulation: the real library in a fresh process H executing a
seeded *history* of API calls (parse / DateDataParser slots / search_dates /
calendar parsers / failing calls / cache-limit pressure / regex purges /
restarts) under a frozen simulated clock per call.  Reference model: the same
call made alone in a fresh process started under a *different* hash seed (no
memory).  Caller-owned argument objects are snapshotted and compared.
"""
import copy
import json
import time
from collections import Counter

from simkit import env, report, seeds, world
from simkit.canon import canon_result, dec_value, enc_value
from simkit.farm import Farm

PROP = "C03"
LEVEL = "exploration"

RULE = (
    "one evaluation = one API call inside a seeded history, compared with the same call made alone in a fresh process under another PYTHONHASHSEED; "
    "a history is non-trivial if at least one checked call ran against state created by an earlier call with a different settings dict or language; "
    "distinct = distinct (multiset of call kinds x settings-key-difference classes) over non-trivial histories"
)
ASSUMPTIONS = [
    "the reference time is an argument: every call carries the simulated instant it is to see (frozen clock), so outcomes are comparable across processes",
    "outcome = value (canonical fields incl. utcoffset/tzname) or exception class; exception messages are not compared",
    "fresh-process outcome is taken as the reference: the check says nothing about whether an answer is right, only whether history changes it",
    "DateDataParser instances are created without try_previous_locales or a detection callback, as the property says",
]

WEIGHTED_LANGS = ["tl", "en", "fr", "de", "es", "ja", "zh", "yue", "ru", "fa", "ar", "hi", "th", "vi", "hu", "fi", "pt", "it", "nl", "tr"]


# --------------------------------------------------------------------------
# pools (built in a leaf from the tree's own language data)
# --------------------------------------------------------------------------


def build_pools(p):
    env.setup_path()
    import importlib
    import re

    from dateparser.data import languages_info

    locmap = getattr(languages_info, "language_locale_dict", {})
    pools = {}
    for L in languages_info.language_order:
        try:
            info = importlib.import_module("dateparser.data.date_translation_data." + L).info
        except Exception:
            continue
        months = [[n for n in info.get(k, []) if n] for k in ("january", "february", "march", "april", "may", "june", "july", "august", "september", "october", "november", "december")]
        days = [[n for n in info.get(k, []) if n] for k in ("monday", "tuesday", "wednesday", "thursday", "friday", "saturday", "sunday")]
        rel = []
        for k, v in (info.get("relative-type") or {}).items():
            rel.extend(v[:2])
        relre = []
        for k, v in (info.get("relative-type-regex") or {}).items():
            for pat in v[:1]:
                s = re.sub(r"\(\\d\+\[\.,\]\?\\d\*\)", "3", pat)
                if "\\" not in s and "(" not in s:
                    relre.append(s)
        regional = []
        base_words = {w.lower() for ml in months for w in ml}
        for loc, spec in (info.get("locale_specific") or {}).items():
            for mi, k in enumerate(("january", "february", "march", "april", "may", "june", "july", "august", "september", "october", "november", "december")):
                for w in spec.get(k, []) or []:
                    if w and w.lower() not in base_words and not any(ch.isdigit() for ch in w):
                        regional.append([loc, w, mi + 1])
        rel_regional = []
        for loc, spec in (info.get("locale_specific") or {}).items():
            for k, v in (spec.get("relative-type-regex") or {}).items():
                for pat in v[:3]:
                    s_ = re.sub(r"\(\\d\+\[\.,\]\?\\d\*\)", "3", pat)
                    if "\\" not in s_ and "(" not in s_:
                        rel_regional.append([loc, s_])
            for k, v in (spec.get("relative-type") or {}).items():
                for w in v[:2]:
                    rel_regional.append([loc, w])
        pools[L] = {"rel_regional": rel_regional[:12], "regional": regional[:8], "months": months, "days": days, "rel": rel[:12], "relre": relre[:10], "nws": "no_word_spacing" in info, "skip": [s for s in info.get("skip", []) if s.strip() and len(s) > 1][:6], "locales": list(locmap.get(L, []))[:4]}
    return {"order": list(languages_info.language_order), "langs": pools}


# --------------------------------------------------------------------------
# generator (main side; pure function of the rng and the pools)
# --------------------------------------------------------------------------

SKIPS = [["t"], [], ["foo"], ["bar"], ["foo", "bar"], ["t."], ["of the"], ["de"], ["on"], ["at", "foo"]]
PARSER_SETS = [["timestamp", "relative-time", "custom-formats", "absolute-time"], ["absolute-time"], ["relative-time", "absolute-time"], ["absolute-time", "relative-time"], ["timestamp", "absolute-time", "no-spaces-time"], ["custom-formats", "absolute-time"], ["no-spaces-time", "absolute-time"]]
ORDERS = ["DMY", "MDY", "YMD", "YDM", "MYD", "DYM"]
CACHE_LIMITS = [0, 1, 2, 3, 5, 1000]


def draw_settings(rng, langs):
    s = {}
    anchor = ["SKIP_TOKENS", "NORMALIZE", "DATE_ORDER", "PREFER_LOCALE_DATE_ORDER", "DEFAULT_LANGUAGES", "PARSERS", "CACHE_SIZE_LIMIT"]
    other = ["RELATIVE_BASE", "PREFER_DATES_FROM", "PREFER_DAY_OF_MONTH", "STRICT_PARSING", "TIMEZONE", "TO_TIMEZONE", "RETURN_AS_TIMEZONE_AWARE", "RETURN_TIME_AS_PERIOD", "REQUIRE_PARTS", "PREFER_MONTH_OF_YEAR"]
    keys = []
    for _ in range(rng.choice([1, 1, 2, 2, 3])):
        k = rng.choice(anchor) if rng.random() < 0.6 else rng.choice(other)
        if k not in keys:
            keys.append(k)
    for k in keys:
        if k == "SKIP_TOKENS":
            s[k] = list(rng.choice(SKIPS))
        elif k in ("NORMALIZE", "PREFER_LOCALE_DATE_ORDER", "STRICT_PARSING", "RETURN_AS_TIMEZONE_AWARE", "RETURN_TIME_AS_PERIOD"):
            s[k] = rng.random() < 0.5
        elif k == "DATE_ORDER":
            s[k] = rng.choice(ORDERS)
        elif k == "DEFAULT_LANGUAGES":
            s[k] = [rng.choice(langs)]
        elif k == "PARSERS":
            s[k] = list(rng.choice(PARSER_SETS))
        elif k == "CACHE_SIZE_LIMIT":
            s[k] = rng.choice(CACHE_LIMITS)
        elif k == "RELATIVE_BASE":
            import datetime as dt

            d = dt.datetime(rng.randrange(1990, 2035), rng.randrange(1, 13), rng.randrange(1, 29), rng.randrange(24), rng.randrange(60))
            r = rng.random()
            if r < 0.6:
                s[k] = enc_value(d)
            elif r < 0.8:
                s[k] = {"__dt__": [d.year, d.month, d.day, d.hour, d.minute, 0, 0], "tz": {"zone": "UTC"}}
            else:
                s[k] = {"__dt__": [d.year, d.month, d.day, d.hour, d.minute, 0, 0], "tz": {"offset_s": 19800.0}}
        elif k == "PREFER_DATES_FROM":
            s[k] = rng.choice(["past", "future", "current_period"])
        elif k in ("PREFER_DAY_OF_MONTH", "PREFER_MONTH_OF_YEAR"):
            s[k] = rng.choice(["first", "last", "current"])
        elif k == "TIMEZONE":
            s[k] = rng.choice(["UTC", "Asia/Tokyo", "America/New_York", "EST", "local", "CET", "EET"])
        elif k == "TO_TIMEZONE":
            s[k] = rng.choice(["UTC", "Europe/London", "Asia/Kolkata", "PST", "CET", "EET"])  # CET/EET: a DST zone for pytz, a fixed offset in the library's table
        elif k == "REQUIRE_PARTS":
            s[k] = rng.choice([["day"], ["month"], ["year"], ["day", "month"], ["month", "year"]])
    return s


def draw_string(rng, pools, L):
    P = pools["langs"].get(L) or pools["langs"]["en"]
    r = rng.random()
    d, m, y = rng.randrange(1, 29), rng.randrange(1, 13), rng.randrange(1995, 2031)
    mname = rng.choice(P["months"][m - 1]) if P["months"][m - 1] else str(m)
    if r < 0.2:
        s = "%d %s %d" % (d, mname, y)
    elif r < 0.3:
        s = "%s %d" % (mname, y)
    elif r < 0.35:
        s = mname
    elif r < 0.42:
        wd = rng.choice([x for x in P["days"] if x] or [["monday"]])
        s = rng.choice(wd)
    elif r < 0.52 and P["rel"]:
        s = rng.choice(P["rel"])
    elif r < 0.6 and P["relre"]:
        s = rng.choice(P["relre"])
    elif r < 0.8:
        a, b = rng.randrange(1, 13), rng.randrange(1, 13)
        sep = rng.choice(["/", ".", "-"])
        s = "%02d%s%02d%s%d" % (a, sep, b, sep, y)
        if rng.random() < 0.4:
            s += " %02d:%02d" % (rng.randrange(24), rng.randrange(60))
    elif r < 0.85:
        s = "%02d:%02d" % (rng.randrange(24), rng.randrange(60))
    elif r < 0.9:
        s = str(y)
    elif r < 0.94:
        s = str(rng.randrange(10 ** 9, 2 * 10 ** 9))
    else:
        s = "%d %s %d %02d:%02d" % (d, mname, y, rng.randrange(24), rng.randrange(60))
    if rng.random() < 0.08:
        # a date the locale accepts but the parser must reject (error paths inside a call)
        s = rng.choice(["31 %s %d" % (rng.choice(P["months"][mm - 1]) if P["months"][mm - 1] else str(mm), y) for mm in (2, 4, 6, 9, 11)] + ["30/02/%d" % y, "31/04/%d" % y, "%s 99" % mname, "32 %s %d" % (mname, y)])
    if rng.random() < 0.15:
        s = rng.choice(["foo ", "bar ", "t ", "on ", "de "]) + s
    if rng.random() < 0.05 and P["skip"]:
        s = s + " " + rng.choice(P["skip"])
    if rng.random() < 0.08:
        s = s + " " + rng.choice(TZ_SUFFIXES)
    return s


def draw_text(rng, pools, L):
    parts = []
    for _ in range(rng.choice([1, 1, 2, 3])):
        parts.append(rng.choice(["", "xyz qrs ", "foo ", "lorem ipsum "]) + draw_string(rng, pools, L))
    joiner = "" if (pools["langs"].get(L) or {}).get("nws") and rng.random() < 0.5 else rng.choice([" ", ". ", ", ", " and "])
    return joiner.join(parts) + rng.choice(["", ".", ""])


TZ_SUFFIXES = ["UTC", "GMT", "UTC+3", "GMT+2", "UTC-5", "EST", "+0530", "CET", "PST", "UTC+03:00"]

FAILING = [
    {"op": "parse", "s": "12 March 2015", "kw": {"settings": {"FOO": 1}}},
    {"op": "parse", "s": "12 March 2015", "kw": {"settings": {"DATE_ORDER": "XYZ"}}},
    {"op": "parse", "s": "12 March 2015", "kw": {"settings": {"NORMALIZE": "yes"}}},
    {"op": "parse", "s": "12 March 2015", "kw": {"settings": {"PARSERS": ["bogus"]}}},
    {"op": "parse", "s": "12 March 2015", "kw": {"settings": {"REQUIRE_PARTS": ["hour"]}}},
    {"op": "parse", "s": "12 March 2015", "kw": {"settings": {"DEFAULT_LANGUAGES": ["xx"]}}},
    {"op": "parse", "s": "12 March 2015", "kw": {"settings": {"TIMEZONE": "Not/AZone"}}},
    {"op": "parse", "s": "12 March 2015", "kw": {"settings": {"TO_TIMEZONE": "Bad/Zone"}}},
    {"op": "parse", "s": "12 March 2015", "kw": {"settings": {"CACHE_SIZE_LIMIT": "1"}}},
    {"op": "parse", "s": "12 March 2015", "kw": {"languages": ["xx"]}},
    {"op": "parse", "s": "12 March 2015", "kw": {"languages": "en"}},
    {"op": "parse", "s": "12 March 2015", "kw": {"locales": ["fr-FR", "fr-BE"]}},
    {"op": "parse", "s": "12 March 2015", "kw": {"locales": ["zz-ZZ"]}},
    {"op": "parse", "s": 12345, "kw": {}},
    {"op": "parse", "s": 20200102, "kw": {"settings": {"DATE_ORDER": "DMY"}}},
    {"op": "parse", "s": "01/02/2020", "kw": {"date_formats": "%d/%m", "settings": {"DATE_ORDER": "DMY"}}},
    {"op": "parse", "s": "01/02/2020", "kw": {"settings": {"TIMEZONE": "Nowhere/Land", "DATE_ORDER": "DMY"}}},
    {"op": "search", "text": 20200102, "kw": {"languages": ["ru"]}},
    {"op": "parse", "s": None, "kw": {"languages": ["en"]}},
    {"op": "parse", "s": "9999-12-31 23:59 -0500", "kw": {"settings": {"TIMEZONE": "UTC"}}},
    {"op": "parse", "s": "9999-12-31 23:59 -0500", "kw": {"languages": ["fr", "tl"], "settings": {"TIMEZONE": "UTC"}}},
    {"op": "parse", "s": "12 March 2015", "kw": {"date_formats": "%d %B %Y"}},
    {"op": "search", "text": "上個月", "kw": {"languages": ["yue"]}},
    {"op": "search", "text": "on 12 March 2015", "kw": {"languages": ["xx"]}},
    {"op": "search", "text": "on 12 March 2015", "kw": {"settings": {"FOO": 1}}},
    {"op": "search", "text": "on 12 March 2015", "kw": {"languages": "en"}},
    {"op": "new_parser", "kw": {"languages": ["xx"]}},
    {"op": "new_parser", "kw": {"settings": {"PARSERS": ["bogus"]}}},
    {"op": "new_parser", "kw": {"use_given_order": True}},
]

CAL = [
    {"op": "jalali", "s": "1393/02/03"}, {"op": "jalali", "s": "02/03/1393"}, {"op": "jalali", "s": "02/03"}, {"op": "jalali", "s": "جمعه سی ام اسفند ۱۳۸۷"},
    {"op": "jalali", "s": "1390"}, {"op": "hijri", "s": "1437/01/17"}, {"op": "hijri", "s": "17-01-1437 هـ 08:30 مساءً"}, {"op": "hijri", "s": "02/03/1437"}, {"op": "jalali", "s": "not a date"},
]


def gen_history(rng, pools, tier):
    n = rng.randrange(2, 13) if rng.random() < 0.9 else rng.randrange(13, 41)
    order = pools["order"]
    k = rng.randrange(1, 7)
    langs = []
    while len(langs) < k:
        L = rng.choice(WEIGHTED_LANGS) if rng.random() < 0.55 else rng.choice(order)
        if L in pools["langs"] and L not in langs:
            langs.append(L)
    nvar = rng.randrange(1, 5)
    variants = [None] + [draw_settings(rng, langs) for _ in range(nvar)]
    focus = None
    if rng.random() < 0.45:
        # contrast mode: the variants differ in exactly one of the keys the shared state is (or
        # should be) keyed by, the same strings recur under each variant, few languages
        focus = rng.choice(["SKIP_TOKENS", "SKIP_TOKENS", "NORMALIZE", "DATE_ORDER", "PREFER_LOCALE_DATE_ORDER", "DEFAULT_LANGUAGES", "PARSERS", "CACHE_SIZE_LIMIT", "STRICT_PARSING", "PREFER_DATES_FROM", "RELATIVE_BASE", "RELATIVE_BASE", "TIMEZONE", "TO_TIMEZONE", "PREFER_DAY_OF_MONTH"])
        langs = langs[: rng.choice([1, 1, 2])]
        if focus in ("DATE_ORDER", "PREFER_LOCALE_DATE_ORDER") and rng.random() < 0.5 and "tl" not in langs:
            langs = (["tl"] + langs)[:2]  # the only language without a date order of its own
        base = {} if rng.random() < 0.6 else {k: v for k, v in draw_settings(rng, langs).items() if k != focus}
        if focus != "CACHE_SIZE_LIMIT" and rng.random() < 0.35:
            base["CACHE_SIZE_LIMIT"] = rng.choice([1, 1, 2])  # evictions while the variants alternate
        vals = {
            "SKIP_TOKENS": [["foo"], ["bar"], ["t"], ["foo", "bar"], []], "NORMALIZE": [True, False], "DATE_ORDER": ORDERS, "PREFER_LOCALE_DATE_ORDER": [True, False],
            "DEFAULT_LANGUAGES": [[l] for l in (langs + ["en", "fr"])[:3]], "PARSERS": PARSER_SETS, "CACHE_SIZE_LIMIT": CACHE_LIMITS, "STRICT_PARSING": [True, False],
            "PREFER_DATES_FROM": ["past", "future", "current_period"],
            "RELATIVE_BASE": [{"__dt__": [rng.randrange(1990, 2035), rng.randrange(1, 13), rng.randrange(1, 29), rng.randrange(24), rng.randrange(60), 0, 0], "tz": None} for _ in range(3)],
            "TIMEZONE": ["UTC", "Asia/Tokyo", "America/New_York", "local", "CET", "EET"], "TO_TIMEZONE": ["UTC", "CET", "EET", "Asia/Kolkata"], "PREFER_DAY_OF_MONTH": ["first", "last", "current"],
        }[focus]
        picks = rng.sample(vals, min(len(vals), rng.choice([2, 2, 3])))
        variants = [None if not base else dict(base)] + [dict(base, **{focus: copy.deepcopy(v)}) for v in picks]
    # cache-limit pressure: often give two variants different limits
    if rng.random() < 0.5 and len(variants) >= 3:
        a, b = rng.sample(range(1, len(variants)), 2)
        variants[a] = dict(variants[a], CACHE_SIZE_LIMIT=rng.choice([1, 2, 3]))
        variants[b] = dict(variants[b], CACHE_SIZE_LIMIT=rng.choice([0, 5, 1000, 2]))
    zone = rng.choice(world.ZONE_POOL) if rng.random() < 0.3 else "UTC"
    import datetime as dt

    def clock():
        return world.to_us(dt.datetime(rng.randrange(1995, 2035), rng.randrange(1, 13), rng.randrange(1, 29), rng.randrange(24), rng.randrange(60), rng.randrange(60)))

    # a small pool of strings per history so that the same call recurs in different positions
    strings = [(L, draw_string(rng, pools, L)) for L in langs for _ in range(3)]
    if focus == "SKIP_TOKENS":
        strings = [(L, rng.choice(["foo ", "bar ", "foo bar "]) + s0 if not s0.startswith(("foo", "bar")) else s0) for L, s0 in strings]
    elif focus in ("RELATIVE_BASE", "PREFER_DATES_FROM", "TIMEZONE"):
        # strings whose value depends on the reference: relative phrases, partial dates, times
        extra = []
        for L in langs:
            P = pools["langs"].get(L) or {}
            extra += [(L, x) for x in (P.get("rel") or [])[:3] + (P.get("relre") or [])[:2]]
            extra += [(L, "%02d:%02d" % (rng.randrange(24), rng.randrange(60)))]
        strings = strings[: len(langs)] + extra
    elif focus in ("DATE_ORDER", "PREFER_LOCALE_DATE_ORDER"):
        strings = strings[: len(langs)] + [(L, "%02d/%02d/%d" % (rng.randrange(1, 13), rng.randrange(1, 13), rng.randrange(2000, 2030))) for L in langs for _ in range(2)]
    ops = []
    slots = {}
    nslot = 0
    # scenario templates: interaction shapes that pure random drawing reaches too rarely.  They only
    # seed the beginning of the history; the random tail follows.
    tmpl = rng.random()
    if tmpl < 0.33:
        L, s0 = rng.choice(strings)
        var = rng.choice([v for v in variants if v] or [draw_settings(rng, langs)])
        P = pools["langs"].get(L) or {}
        refdep = rng.choice((P.get("rel") or [])[:4] + (P.get("relre") or [])[:3] + ["%02d:%02d" % (rng.randrange(24), rng.randrange(60)), s0])
        if tmpl < 0.08:
            # T1 live instance x an equal-but-distinct settings dict used by another entry point
            nslot += 1
            slots[nslot] = {"languages": [L], "settings": copy.deepcopy(var)}
            ops.append({"op": "new_parser", "slot": nslot, "kw": slots[nslot], "clock_us": clock()})
            L2 = rng.choice(langs)
            mid = rng.choice(["search", "search", "parse", "failing", "new_parser"])
            if mid == "search":
                ops.append({"op": "search", "text": draw_text(rng, pools, L2), "kw": {"languages": [L2], "settings": copy.deepcopy(var)}, "clock_us": clock()})
            elif mid == "parse":
                ops.append({"op": "parse", "s": draw_string(rng, pools, L2), "kw": {"languages": [L2], "settings": copy.deepcopy(var)}, "clock_us": clock()})
            elif mid == "failing":
                ops.append({"op": "parse", "s": "9999-12-31 23:59 -0500", "kw": {"languages": [L2, "tl"][: rng.choice([1, 2])], "settings": dict(copy.deepcopy(var), TIMEZONE="UTC")}, "clock_us": clock()})
            else:
                nslot += 1
                slots[nslot] = {"languages": [L2], "settings": copy.deepcopy(var)}
                ops.append({"op": "new_parser", "slot": nslot, "kw": slots[nslot], "clock_us": clock()})
            ops.append({"op": "get_date_data", "slot": 1, "ctor": slots[1], "s": refdep, "clock_us": clock()})
        elif tmpl < 0.09:
            # T9 strings that carry a time zone, in succession (plain UTC/GMT, then UTC+n, then others)
            base_s = rng.choice(["3 March 2020 12:00", "12/03/2015 10:00", "2 hours ago", "March 3 2020 5pm"])
            for z in rng.sample(TZ_SUFFIXES, rng.choice([2, 3, 4])):
                ops.append({"op": rng.choice(["parse", "parse", "search"]), "s": base_s + " " + z, "text": "on " + base_s + " " + z, "kw": {"languages": ["en"]}, "clock_us": clock()})
            for o in ops:
                o.pop("text" if o["op"] == "parse" else "s", None)
        elif tmpl < 0.105:
            # T7 parse() with a (pure, deterministic) language-detection callback: what it detected for one
            # string must not stick for the next
            texts = ["12 mars 2021 10:30", "March 12 2021 10:30", "12 marzo 2021", "3. März 2015", "hier", "yesterday"]
            for tx in rng.sample(texts, rng.choice([2, 3])):
                kwd = {"detect": True}
                if rng.random() < 0.3 and var:
                    kwd["settings"] = copy.deepcopy(var)
                ops.append({"op": "parse", "s": tx, "kw": kwd, "clock_us": clock()})
        elif tmpl < 0.13:
            # T8 the caller reuses ONE settings dict object, editing it between calls; afterwards a
            # brand-new dict equal to the first version must behave like in a fresh process
            Lx, sx = rng.choice(strings)
            key = rng.choice(["SKIP_TOKENS", "DATE_ORDER", "PREFER_LOCALE_DATE_ORDER", "PREFER_DAY_OF_MONTH"])
            v1, v2 = {"SKIP_TOKENS": (["foo"], ["bar"]), "DATE_ORDER": ("DMY", "MDY"), "PREFER_LOCALE_DATE_ORDER": (True, False), "PREFER_DAY_OF_MONTH": ("first", "last")}[key]
            first = {key: v1}
            second = dict(first, **rng.choice([{key: v2}, {"DATE_ORDER": "YMD"}, {"NORMALIZE": False}]))
            sx2 = rng.choice([sx, "foo " + sx, "02.03.2020", "foo 02/03/2020"])
            ops.append({"op": "parse", "s": sx2, "kw": {"languages": [Lx], "settings_ref": ["A", first]}, "clock_us": clock()})
            ops.append({"op": "parse", "s": sx2, "kw": {"languages": [Lx], "settings_ref": ["A", second]}, "clock_us": clock()})
            ops.append({"op": "parse", "s": sx2, "kw": {"languages": [Lx], "settings": copy.deepcopy(first)}, "clock_us": clock()})
        elif tmpl < 0.155 and any((pools["langs"].get(l) or {}).get("regional") for l in pools["order"][:60]):
            # T6 a regional variant's own vocabulary must not leak into the base language (or a sibling
            # locale) loaded in the same process, whichever of them is used first
            cands = [l for l in pools["order"] if (pools["langs"].get(l) or {}).get("regional")]
            Lr = rng.choice(cands)
            loc, word, mi = rng.choice(pools["langs"][Lr]["regional"])
            sreg = "%d %s %d" % (rng.randrange(1, 29), word, rng.randrange(2000, 2030))
            reg_call = {"op": "parse", "s": sreg, "kw": {"locales": [loc]}, "clock_us": clock()}
            if rng.random() < 0.4 and loc.count("-") == 1:
                reg_call = {"op": "parse", "s": sreg, "kw": {"languages": [Lr], "region": loc.split("-")[1]}, "clock_us": clock()}
            base_call = {"op": rng.choice(["parse", "parse", "search"]), "s": sreg, "text": "xyz " + sreg, "kw": {"languages": [Lr]}, "clock_us": clock()}
            base_call.pop("text" if base_call["op"] == "parse" else "s")
            seq = [reg_call, base_call] if rng.random() < 0.7 else [base_call, reg_call, copy.deepcopy(base_call)]
            ops.extend(seq)
        elif tmpl < 0.19:
            # T5 'tl' is the only language without a date order of its own: whatever order applies to it must
            # come from the call's own settings, never from whoever parsed Tagalog first in this process
            a_, b_ = rng.sample(range(1, 13), 2)
            num = "%02d/%02d/%d" % (a_, b_, rng.randrange(2000, 2030))
            o1, o2 = rng.sample(ORDERS, 2)
            if rng.random() < 0.7:
                seq = [{"DATE_ORDER": rng.choice(["DMY", "DYM", "YDM"])}, None] + rng.sample([{"DATE_ORDER": o2}, {"PREFER_LOCALE_DATE_ORDER": False}, None], 2)
            else:
                seq = [{"DATE_ORDER": o1}, None, {"DATE_ORDER": o2}, {"PREFER_LOCALE_DATE_ORDER": False}]
                rng.shuffle(seq)
            for st_ in seq[: rng.choice([2, 3, 4])]:
                kw_ = {"languages": ["tl"]}
                if st_:
                    kw_["settings"] = st_
                ops.append({"op": "parse", "s": num, "kw": kw_, "clock_us": clock()})
        elif tmpl < 0.225:
            # T4 a live instance on which a call raises *inside* a parser (not a ValueError), then an
            # order-sensitive call on the same instance; 'tl' first in the given order has no date order of its own
            Lx = rng.choice([l for l in langs if l not in ("en", "tl")] or ["fr"])
            Px = pools["langs"].get(Lx) or pools["langs"]["fr"]
            nslot += 1
            slots[nslot] = {"languages": ["tl", Lx], "use_given_order": True, "settings": rng.choice([{"TO_TIMEZONE": "UTC"}, {"TIMEZONE": "UTC"}, dict(copy.deepcopy(var), TO_TIMEZONE="UTC")])}
            ops.append({"op": "new_parser", "slot": nslot, "kw": slots[nslot], "clock_us": clock()})
            num = "%02d/%02d/%d" % (rng.randrange(1, 13), rng.randrange(1, 13), rng.randrange(2000, 2030))
            if rng.random() < 0.5:
                ops.append({"op": "get_date_data", "slot": nslot, "ctor": slots[nslot], "s": num, "clock_us": clock()})
            jan = (Px["months"][0] or ["1"])[0]
            dec = (Px["months"][11] or ["12"])[0]
            ops.append({"op": "get_date_data", "slot": nslot, "ctor": slots[nslot], "s": rng.choice(["1 %s 0001 00:00 +05:00" % jan, "31 %s 9999 23:59 -0500" % dec]), "clock_us": clock()})
            ops.append({"op": "get_date_data", "slot": nslot, "ctor": slots[nslot], "s": num, "clock_us": clock()})
        elif tmpl < 0.275:
            # T2 custom-settings traffic, then default-settings calls that read the module default
            for _ in range(rng.choice([1, 2])):
                Lx, sx = rng.choice(strings)
                ops.append({"op": rng.choice(["parse", "parse", "search"]), "s": sx, "text": sx, "kw": {"languages": [Lx], "settings": copy.deepcopy(var)}, "clock_us": clock()})
            for o in ops:
                if o["op"] == "search":
                    o.pop("s")
                else:
                    o.pop("text")
            ops.append(dict(rng.choice(CAL), clock_us=clock()))
            ops.append({"op": "parse", "s": rng.choice(["02/03/2012", refdep, s0]), "kw": {"languages": [rng.choice(["tl", L])]}, "clock_us": clock()})
        else:
            # T3 a call that fails inside the parsers, then order-sensitive default-order calls
            Lx = rng.choice([l for l in langs if l != "en"] or ["fr"])
            Px = pools["langs"].get(Lx) or pools["langs"]["fr"]
            mm = rng.choice([2, 4, 6, 9, 11])
            bad = "31 %s %d" % ((Px["months"][mm - 1] or [str(mm)])[0], rng.randrange(2000, 2030))
            ops.append({"op": "parse", "s": rng.choice([bad, "31/02/2015", "9999-12-31 23:59 -0500"]), "kw": {"languages": [Lx]} if rng.random() < 0.8 else {"languages": [Lx], "settings": {"TIMEZONE": "UTC"}}, "clock_us": clock()})
            ops.append(dict(rng.choice(CAL[:3]), clock_us=clock()))
            ops.append({"op": "parse", "s": "%02d/%02d/%d" % (rng.randrange(1, 13), rng.randrange(1, 13), rng.randrange(2000, 2030)), "kw": {"languages": ["tl"]}, "clock_us": clock()})
    elif tmpl < 0.355:
        # T10 the same digits through different parser families (Jalali / Hijri / Gregorian share the
        # tokenizer and parser base class): two-digit years, Persian / Arabic-Indic digits, all orders
        a_, b_, c_ = rng.randrange(1, 13), rng.randrange(1, 30), rng.choice([rng.randrange(0, 100), rng.randrange(1380, 1445), rng.randrange(1990, 2030)])
        sep = rng.choice(["/", "-", "."])
        toks = ["%02d" % a_, "%02d" % b_, "%02d" % c_ if c_ < 100 else "%d" % c_]
        shapes = [toks, toks[::-1], [toks[1], toks[0], toks[2]]]
        fa_digits = str.maketrans("0123456789", "۰۱۲۳۴۵۶۷۸۹")
        ar_digits = str.maketrans("0123456789", "٠١٢٣٤٥٦٧٨٩")
        seq = []
        for _ in range(rng.choice([2, 3, 4])):
            num = sep.join(rng.choice(shapes))
            kind = rng.choice(["jalali", "hijri", "parse", "parse"])
            if kind == "parse":
                seq.append({"op": "parse", "s": num, "kw": {"languages": [rng.choice(["en", "fa", "ar", "fr", "tl"])]}, "clock_us": clock()})
            else:
                if rng.random() < 0.5:
                    num = num.translate(fa_digits if kind == "jalali" else ar_digits)
                seq.append({"op": kind, "s": num, "clock_us": clock()})
        if not any(o["op"] == "parse" for o in seq):
            seq.append({"op": "parse", "s": sep.join(rng.choice(shapes)), "kw": {"languages": ["en"]}, "clock_us": clock()})
        if not any(o["op"] != "parse" for o in seq):
            seq.insert(0, {"op": rng.choice(["jalali", "hijri"]), "s": sep.join(rng.choice(shapes)), "clock_us": clock()})
        ops.extend(seq)
    elif tmpl < 0.38:
        # T11 the same set of languages given in different orders (order decides precedence, so no
        # state derived from a language list may be keyed by the set alone)
        ls = rng.sample([l for l in ["en", "fr", "de", "es", "it", "pt", "nl", "ru", "tr", "pl"] if l in pools["langs"]], rng.choice([2, 2, 3]))
        perms = [list(ls), list(reversed(ls))]
        if len(ls) == 3:
            perms.append([ls[1], ls[2], ls[0]])
        texts = {}
        for l_ in ls:
            Pl = pools["langs"][l_]
            mn = [m for ml in Pl["months"] for m in ml[:1]]
            texts[l_] = [draw_text(rng, pools, l_), "xyz %d %s %d abc" % (rng.randrange(1, 29), rng.choice(mn or ["1"]), rng.randrange(2000, 2030))]
        for _ in range(rng.choice([2, 3, 4])):
            order_ = rng.choice(perms)
            l_ = rng.choice(ls)
            tx = rng.choice(texts[l_])
            if rng.random() < 0.7:
                ops.append({"op": "search", "text": tx, "kw": {"languages": list(order_)}, "clock_us": clock()})
            else:
                ops.append({"op": "parse", "s": tx.replace("xyz ", "").replace(" abc", ""), "kw": {"languages": list(order_)}, "clock_us": clock()})
    elif tmpl < 0.40:
        # T12 aware RELATIVE_BASE values that are the same instant in different offsets (equal under ==,
        # different wall clocks), together with a TIMEZONE setting; also equal naive/aware wall clocks
        wall = [rng.randrange(1995, 2035), rng.randrange(1, 13), rng.choice([1, 28, 30, 31, rng.randrange(1, 29)]), rng.randrange(24), rng.randrange(60), 0, 0]
        try:
            w0 = dt.datetime(*wall)
        except ValueError:
            wall[2] = 28
            w0 = dt.datetime(*wall)
        offs = rng.sample([0, 330, 345, -300, 540, -210, 60, 765], 3)
        tzset = rng.choice(["UTC", "Asia/Kolkata", "America/New_York", "Asia/Tokyo", "Europe/Paris"])
        phrases = ["2 days ago", "1 month ago", "in 3 hours", "yesterday", "tomorrow at 08:15", "now", "10:30", "March 3"]
        for off in offs[: rng.choice([2, 3])]:
            w = w0 + dt.timedelta(minutes=off - offs[0])  # same instant as (w0, offs[0])
            bv = {"__dt__": [w.year, w.month, w.day, w.hour, w.minute, w.second, w.microsecond], "tz": {"offset_s": off * 60.0}}
            st_ = {"RELATIVE_BASE": bv}
            if rng.random() < 0.8:
                st_["TIMEZONE"] = tzset
            if rng.random() < 0.3:
                st_["TO_TIMEZONE"] = rng.choice(["UTC", "Asia/Tokyo"])
            ops.append({"op": rng.choice(["parse", "parse", "search"]), "s": rng.choice(phrases), "kw": {"languages": ["en"], "settings": st_}, "clock_us": clock()})
        for o in ops:
            if o["op"] == "search":
                o["text"] = "it happened " + o.pop("s")
    elif tmpl < 0.425:
        # T13 sibling locales of one language (base language, regional variants) used one after the other
        # with the SAME settings, on relative phrases: regional variants extend the relative vocabulary
        cands = [l for l in pools["order"] if (pools["langs"].get(l) or {}).get("rel_regional")]
        Lr = rng.choice(cands) if cands else None
        if Lr:
            Pl = pools["langs"][Lr]
            rr = Pl["rel_regional"]
            locs = sorted({x[0] for x in rr}) + list(Pl.get("locales") or [])[:2]
            phrases = [x[1] for x in rr][:8] + (Pl.get("relre") or [])[:4] + (Pl.get("rel") or [])[:4]
            st_ = rng.choice([None, None, {"RELATIVE_BASE": {"__dt__": [2020, 6, 15, 12, 0, 0, 0], "tz": None}}, {"PREFER_DATES_FROM": "past"}])
            for _ in range(rng.choice([2, 3, 4])):
                kw_ = {"locales": [rng.choice(locs)]} if rng.random() < 0.55 else {"languages": [Lr]}
                if st_:
                    kw_["settings"] = copy.deepcopy(st_)
                ops.append({"op": "parse", "s": rng.choice(phrases), "kw": kw_, "clock_us": ops[-1]["clock_us"] if (ops and "clock_us" in ops[-1] and rng.random() < 0.7) else clock()})
    for i in range(n):
        r = rng.random()
        L, s = rng.choice(strings)
        var = rng.choice(variants)
        kw = {}
        lr = rng.random()
        if lr < 0.55:
            kw["languages"] = [L]
        elif lr < 0.7:
            kw["languages"] = rng.sample(langs, min(len(langs), rng.randrange(1, 4)))
        elif lr < 0.75 and "-" not in L:
            kw["region"] = rng.choice(["US", "BE", "CA", "IN", "001"])
            kw["languages"] = [L]
        elif lr < 0.80 and (pools["langs"].get(L) or {}).get("locales"):
            kw["locales"] = [rng.choice(pools["langs"][L]["locales"])]
        # else: autodetect (default parser)
        if var is not None:
            kw["settings"] = copy.deepcopy(var)
            if rng.random() < 0.06 and "RELATIVE_BASE" not in var:
                kw["settings_obj"] = kw.pop("settings")
        if rng.random() < 0.12:
            kw["date_formats"] = [rng.choice(["%d %B %Y", "%d/%m/%Y", "%H:%M", "%B %Y", "%Y"])]
        elif rng.random() < 0.06:
            # several formats, not all matching: the caller's list must come back untouched
            kw["date_formats"] = rng.choice([["%d/%m/%Y", "%m/%d/%Y"], ["%Y-%m-%d", "%d.%m.%Y", "%d/%m/%Y"], ["%H:%M:%S", "%H:%M"], ["%d %B %Y", "%B %Y", "%Y"]])
            if rng.random() < 0.6:
                s = rng.choice(["02/13/2020", "13/02/2020", "11.03.2015", "03/04/2020", "10:15", "March 2015", "2015"])
        if r < 0.45:
            op = {"op": "parse", "s": s, "kw": kw}
        elif r < 0.53:
            kw.pop("date_formats", None)
            if "languages" not in kw and rng.random() < 0.5:
                kw["languages"] = [L]
            if rng.random() < 0.2 and kw.get("languages"):
                kw["use_given_order"] = True
            nslot += 1
            slots[nslot] = kw
            op = {"op": "new_parser", "slot": nslot, "kw": kw}
        elif r < (0.80 if focus else 0.70) and slots:
            j = rng.choice(sorted(slots))
            op = {"op": rng.choice(["get_date_data", "get_date_data", "get_date_tuple"]), "slot": j, "ctor": slots[j], "s": s}
            if rng.random() < 0.1:
                op["date_formats"] = ["%d %B %Y"]
        elif r < 0.80:
            skw = {}
            if rng.random() < 0.92:
                skw["languages"] = [L]
            if var is not None:
                skw["settings"] = copy.deepcopy(var)
            if rng.random() < 0.3:
                skw["add_detected_language"] = True
            op = {"op": "search", "text": draw_text(rng, pools, L), "kw": skw}
        elif r < 0.85:
            op = dict(rng.choice(CAL))
        elif r < 0.93:
            op = copy.deepcopy(rng.choice(FAILING))
            if op["op"] == "new_parser":
                nslot += 1
                op["slot"] = nslot
        elif r < 0.96:
            op = {"op": "purge"}
        elif r < 0.98:
            op = {"op": "restart"}
            slots = {}
        else:
            op = {"op": "parse", "s": s, "kw": kw}
        if op["op"] not in ("purge", "restart"):
            op["clock_us"] = clock()
        ops.append(op)
    return {"zone": zone, "ops": ops}


# --------------------------------------------------------------------------
# leaf side
# --------------------------------------------------------------------------


def simple_language_detector(text, confidence_threshold):
    """A deterministic detection callback a caller might pass (a pure function of the text)."""
    t = text.lower()
    if any(w in t for w in ("mars", "janvier", "juillet", "hier")):
        return ["fr"]
    if any(w in t for w in ("märz", "gestern", "juli ")):
        return ["de"]
    if any(w in t for w in ("marzo", "ayer")):
        return ["es"]
    return ["en"]


_REFS = {}  # caller-owned settings dicts that live across the calls of one history


def _decode_kw(kw):
    out = {}
    for k, v in kw.items():
        if k == "detect":
            out["detect_languages_function"] = simple_language_detector
            continue
        if k == "settings_ref":
            # the caller keeps ONE dict object, edits it between calls and passes it again
            name, content = v
            d = _REFS.setdefault(name, {})
            d.clear()
            d.update(dec_value(content))
            out["settings"] = d
            continue
        if k == "__settings_instance__":
            out["settings"] = v  # built by the caller beforehand (C20: before the threads start)
        elif k == "settings_obj" and "__settings_instance__" in kw:
            continue
        elif k == "settings_obj":
            # the caller passes a Settings *instance* (apply_settings accepts dict or Settings)
            from dateparser.conf import settings as _default_settings

            out["settings"] = _default_settings.replace(**dec_value(v))
        else:
            out[k] = dec_value(v) if k == "settings" else copy.deepcopy(v)
    return out


_KEPT_EXCEPTIONS = []


def exec_op(op, slots, keep=None):
    """Execute one op; return (outcome, mutated_args).  With `keep`, returned objects are
    retained together with their canonical form at return time."""
    import dateparser

    kind = op["op"]
    if kind == "purge":
        import regex

        regex.purge()
        return None, False
    clk = world.clock()
    clk.set(op["clock_us"], ["frozen"])
    world.refresh()
    kw = _decode_kw(op.get("kw", {}))
    snap = copy.deepcopy({k: v for k, v in kw.items() if k != "detect_languages_function" and not (k == "settings" and ("settings_obj" in op.get("kw", {}) or "__settings_instance__" in op.get("kw", {})))})
    extra = None
    try:
        if kind == "parse":
            val = dateparser.parse(op["s"], **kw)
        elif kind == "new_parser":
            from dateparser.date import DateDataParser

            slots[op["slot"]] = DateDataParser(**kw)
            val = "created"
        elif kind in ("get_date_data", "get_date_tuple"):
            p = slots[op["slot"]]
            extra = copy.deepcopy(op.get("date_formats"))
            a = [op["s"]] + ([extra] if extra is not None else [])
            val = getattr(p, kind)(*a)
        elif kind == "search":
            from dateparser.search import search_dates

            world.refresh()
            val = search_dates(op["text"], **kw)
        elif kind == "jalali":
            from dateparser.calendars.jalali import JalaliCalendar

            world.refresh()
            val = JalaliCalendar(op["s"]).get_date()
        elif kind == "hijri":
            from dateparser.calendars.hijri import HijriCalendar

            world.refresh()
            val = HijriCalendar(op["s"]).get_date()
        elif kind == "absparse":
            # the direct entry point of the absolute parser (what tests/test_date_parser.py drives)
            import dateparser.date as _dd
            from dateparser.date_parser import DateParser

            val = DateParser().parse(op["s"], parse_method=_dd._parse_absolute)
        elif kind == "search_obj":
            from dateparser.search.search import DateSearchWithDetection

            world.refresh()
            val = DateSearchWithDetection().search_dates(op["text"], **kw)
        elif kind == "detect_language":
            from dateparser.search.search import DateSearchWithDetection

            world.refresh()
            val = DateSearchWithDetection().detect_language(op["text"], **kw)
        else:
            raise RuntimeError("unknown op " + kind)
        out = ["ok", canon_result(val)]
        if keep is not None and val is not None and not isinstance(val, (str, int)):
            keep.append((val, copy.deepcopy(out[1])))
    except Exception as e:  # noqa
        out = ["exc", type(e).__name__]
        _KEPT_EXCEPTIONS.append(e)  # a caller may keep the exception (log it, re-raise later): it stays alive
    kw_cmp = {k: v for k, v in kw.items() if k in snap}
    mutated = enc_value(kw_cmp) != enc_value(snap) or repr(kw_cmp) != repr(snap)
    if extra is not None and extra != op.get("date_formats"):
        mutated = True
    return out, mutated


def state_digest():
    """Abstract library state (metrics only; degrades to 'unavailable' after a refactor)."""
    try:
        from dateparser.conf import Settings
        from dateparser.languages.dictionary import Dictionary
        from dateparser.languages.loader import LocaleDataLoader

        reg = getattr(Settings, "__registry_dict", {})
        caches = [getattr(Dictionary, n, {}) for n in ("_split_regex_cache", "_sorted_words_cache", "_split_relative_regex_cache", "_sorted_relative_strings_cache", "_match_relative_regex_cache")]
        return {"registry": len(reg), "caches": [len(c) for c in caches], "cache_entries": sum(len(v) for c in caches for v in c.values()), "locales": len(LocaleDataLoader._loaded_locales)}
    except Exception:
        return None


def run_history(p):
    """Leaf H: run a history segment in this fresh process."""
    env.setup_path()
    import dateparser  # noqa: F401

    world.install()
    world.set_zone(p["zone"])
    _REFS.clear()
    slots = {}
    outs = []
    evictions = 0
    states = []
    kept = []
    for op in p["ops"]:
        before = state_digest()
        nk = len(kept)
        o, mut = exec_op(op, slots, kept)
        if len(kept) > nk:
            kept[-1] = kept[-1] + (len(outs),)
        after = state_digest()
        if before and after and any(a < b for a, b in zip(after["caches"], before["caches"])):
            evictions += 1
        if before and after and after["caches"] == before["caches"] and after["cache_entries"] < before["cache_entries"]:
            evictions += 1
        outs.append({"out": o, "mut": mut})
        if after:
            states.append(seeds.digest(after))
    # an object handed to the caller belongs to the caller: later calls must not change it
    changed_later = []
    for val, canon0, idx in kept:
        try:
            if canon_result(val) != canon0:
                changed_later.append(idx)
        except Exception:  # noqa
            changed_later.append(idx)
    return {"outs": outs, "evictions": evictions, "states": states, "final_state": state_digest(), "changed_later": changed_later}


def run_single(p):
    """Leaf O: one call alone in a fresh process (creating its parser first for slot ops)."""
    env.setup_path()
    import dateparser  # noqa: F401

    world.install()
    world.set_zone(p["zone"])
    op = p["op"]
    slots = {}
    if op["op"] in ("get_date_data", "get_date_tuple"):
        o, _ = exec_op({"op": "new_parser", "slot": op["slot"], "kw": op["ctor"], "clock_us": op["clock_us"]}, slots)
        if o[0] != "ok":
            return {"out": ["ctor-failed", o]}
    o, mut = exec_op(op, slots)
    return {"out": o, "mut": mut}


# --------------------------------------------------------------------------
# main side
# --------------------------------------------------------------------------


def op_key(zone, op):
    o = {k: v for k, v in op.items() if k != "slot"}
    return json.dumps([zone, o], sort_keys=True, default=repr)


def segments(hist):
    segs, cur = [], []
    for op in hist["ops"]:
        if op["op"] == "restart":
            if cur:
                segs.append(cur)
            cur = []
        else:
            cur.append(op)
    if cur:
        segs.append(cur)
    return segs


def oclass(o):
    if o is None:
        return "-"
    if o[0] == "exc":
        return "exc:" + o[1]
    if o[0] == "ctor-failed":
        return "ctor-failed"
    return "none" if o[1] is None else "value"


def settings_of(op):
    kw = op.get("kw") or op.get("ctor") or {}
    return kw.get("settings") or kw.get("settings_obj") or (kw.get("settings_ref") or [None, {}])[1] or {}


def langs_of(op):
    kw = op.get("kw") or op.get("ctor") or {}
    return tuple(kw.get("languages") or kw.get("locales") or [])


def diff_keys(a, b):
    return sorted(k for k in set(a) | set(b) if a.get(k) != b.get(k))


def make_signature(zone, prefix, op, got, fresh):
    dk = set()
    for q in prefix:
        if q["op"] in ("purge",):
            continue
        dk.update(diff_keys(settings_of(q), settings_of(op)))
    return {
        "call": op["op"], "call_settings_keys": sorted(settings_of(op)), "prefix_len": len(prefix), "prefix_kinds": sorted({q["op"] for q in prefix}),
        "differing_settings_keys": sorted(dk), "mismatch": "%s->%s" % (oclass(fresh), oclass(got)),
    }


def ddmin_prefix(farm_h, zone, prefix, op, fresh_out, target_class):
    """Delta-debug the prefix: smallest list of earlier calls after which `op` still differs the same way."""
    def needed(q):
        return q["op"] == "new_parser" and op.get("slot") is not None and q.get("slot") == op.get("slot")

    def fails(cand):
        st, val = farm_h.call("checks.c03_history:run_history", {"zone": zone, "ops": cand + [op]}, 300)
        if st != "ok":
            return False
        o = val["outs"][-1]["out"]
        return o != fresh_out and oclass(o) == target_class

    cur = list(prefix)
    if not fails(cur):
        return None
    n = 2
    while len(cur) >= 2:
        chunk = max(1, len(cur) // n)
        reduced = False
        for i in range(0, len(cur), chunk):
            cand = [q for j, q in enumerate(cur) if not (i <= j < i + chunk) or needed(q)]
            if len(cand) < len(cur) and fails(cand):
                cur = cand
                n = max(n - 1, 2)
                reduced = True
                break
        if not reduced:
            if chunk == 1:
                break
            n = min(len(cur), n * 2)
    if len(cur) == 1 and not needed(cur[0]) and fails([]):
        cur = []
    return cur


def simplify_args(farm_h, farm_o, zone, prefix, op, target_class):
    """Second minimisation pass: drop settings keys and optional arguments of the remaining calls
    one at a time while the failing call still differs from its (recomputed) fresh outcome in the
    same way.  Returns (prefix, op, observed, fresh)."""
    def attempt(pre, o):
        st, fr = farm_o.call("checks.c03_history:run_single", {"zone": zone, "op": o}, 300)
        if st != "ok" or fr["out"][0] == "ctor-failed":
            return None
        st, val = farm_h.call("checks.c03_history:run_history", {"zone": zone, "ops": pre + [o]}, 300)
        if st != "ok":
            return None
        got = val["outs"][-1]["out"]
        if got != fr["out"] and oclass(got) == target_class:
            return got, fr["out"]
        return None

    best = attempt(prefix, op)
    if best is None:
        return None
    prefix, op = copy.deepcopy(prefix), copy.deepcopy(op)
    calls = prefix + [op]
    for ci in range(len(calls)):
        c = calls[ci]
        kwname = "kw" if "kw" in c else ("ctor" if "ctor" in c else None)
        if kwname is None:
            continue
        for field in ("settings", "settings_obj"):
            st_ = c[kwname].get(field)
            if isinstance(st_, dict):
                for key in sorted(st_):
                    cand = copy.deepcopy(calls)
                    del cand[ci][kwname][field][key]
                    if not cand[ci][kwname][field]:
                        del cand[ci][kwname][field]
                    # a slot call must keep the same ctor as its new_parser op
                    if cand[ci]["op"] == "new_parser":
                        for o2 in cand:
                            if o2.get("slot") == cand[ci].get("slot") and "ctor" in o2:
                                o2["ctor"] = cand[ci]["kw"]
                    r = attempt(cand[:-1], cand[-1])
                    if r is not None:
                        calls, best = cand, r
        for opt in ("date_formats", "region", "use_given_order", "add_detected_language"):
            if opt in calls[ci].get(kwname, {}):
                cand = copy.deepcopy(calls)
                del cand[ci][kwname][opt]
                r = attempt(cand[:-1], cand[-1])
                if r is not None:
                    calls, best = cand, r
    return calls[:-1], calls[-1], best[0], best[1]


def main(args):
    tier = args.tier
    seed = seeds.base_seed(3)
    rep = report.Reporter(PROP, tier, seed, LEVEL)
    if args.replay:
        return replay(args, rep)
    nhist = 700 if tier == "quick" else 12000
    if args.runs is not None:
        nhist = args.runs
    t0 = time.time()
    # the interpreter hash seeds of the history process and of the fresh-process oracle are part of
    # the world and derive from VERIF_SEED, so different seeds explore different hash-seed pairs
    hs_h, hs_o = (seed * 7919) % 10007, (seed * 104729 + 4242) % 10007
    if hs_h == hs_o:
        hs_o += 1
    with Farm(hashseed=hs_h, preload=["checks.c03_history"]) as farm_h, Farm(hashseed=hs_o, preload=["checks.c03_history"]) as farm_o:
        from simkit import seamprobe

        if not seamprobe.guard(farm_h, rep):
            return rep.finish({"evaluations": 0, "distinct_nontrivial": 0, "rule": RULE, "samples": []}, ASSUMPTIONS)
        st, pools = farm_o.call("checks.c03_history:build_pools", {}, 300)
        if st != "ok":
            rep.harness_error("pool builder: %s %s" % (st, str(pools)[-300:]))
            return rep.finish({"evaluations": 0, "distinct_nontrivial": 0, "rule": RULE, "samples": []}, ASSUMPTIONS)
        hists = []
        for i in range(nhist):
            rng = seeds.rng_for(seed, PROP, i)
            hists.append(gen_history(rng, pools, tier))
        # second hash-seed pair for a slice of the histories in the thorough tier is handled by swapping farms
        seg_payloads, seg_index = [], []
        for hi, h in enumerate(hists):
            for si, seg in enumerate(segments(h)):
                seg_payloads.append({"zone": h["zone"], "ops": seg})
                seg_index.append((hi, si))
        res_h = farm_h.map("checks.c03_history:run_history", seg_payloads, timeout=600)
        # distinct calls -> fresh-process outcomes
        need = {}
        for pl, (st, val) in zip(seg_payloads, res_h):
            if st != "ok":
                continue
            for op in pl["ops"]:
                if op["op"] == "purge":
                    continue
                need.setdefault(op_key(pl["zone"], op), {"zone": pl["zone"], "op": op})
        keys = sorted(need)
        res_o = farm_o.map("checks.c03_history:run_single", [need[k] for k in keys], timeout=300)
        fresh = {}
        for k, (st, val) in zip(keys, res_o):
            if st != "ok":
                rep.harness_error("oracle leaf: %s %s" % (st, str(val)[-300:]))
                continue
            fresh[k] = val
        # judge
        n_eval = 0
        kinds = Counter()
        exc_classes = Counter()
        evictions = 0
        state_set = set()
        nontrivial = set()
        samples = []
        candidates = []
        mut_reports = []
        for pl, (hi, si), (st, val) in zip(seg_payloads, seg_index, res_h):
            if st != "ok":
                rep.harness_error("history %d segment %d: %s %s" % (hi, si, st, str(val)[-300:]))
                continue
            evictions += val["evictions"]
            state_set.update(val["states"])
            for idx in val.get("changed_later", []):
                opx = pl["ops"][idx]
                sigx = {"call": opx["op"], "mutation": "a previously returned object changed during a later call"}
                rep.violation(sigx, {"run": "h%d-ret%d" % (hi, idx), "seed": seed, "zone": pl["zone"], "prefix": pl["ops"][:idx], "op": opx, "later": pl["ops"][idx + 1:], "kind": "returned-object"},
                              "the object returned by call %d (%s) was modified by a later call of the same history" % (idx, json.dumps(_brief(opx), default=repr)[:200]))
            seen_cfg = set()
            hist_nontrivial = False
            classes = []
            for k, (op, r) in enumerate(zip(pl["ops"], val["outs"])):
                if op["op"] == "purge":
                    kinds["purge"] += 1
                    continue
                n_eval += 1
                kinds[op["op"]] += 1
                if r["out"][0] == "exc":
                    exc_classes[r["out"][1]] += 1
                cfg = (json.dumps(settings_of(op), sort_keys=True, default=repr), langs_of(op))
                if seen_cfg and any(c != cfg for c in seen_cfg):
                    hist_nontrivial = True
                    others = [json.loads(c[0]) for c in seen_cfg if c != cfg]
                    dk = set()
                    for o in others:
                        dk.update(diff_keys(o, settings_of(op)))
                    classes.append((op["op"], ",".join(sorted(dk)) or "lang"))
                seen_cfg.add(cfg)
                f = fresh.get(op_key(pl["zone"], op))
                if f is None:
                    continue
                if r["mut"]:
                    mut_reports.append((hi, si, k, op))
                if f["out"][0] == "ctor-failed":
                    continue
                if r["out"] != f["out"]:
                    candidates.append((hi, si, k, pl, op, r["out"], f["out"]))
            if hist_nontrivial:
                nontrivial.add(tuple(sorted(Counter(classes).items())))
            if len(samples) < 3 and hist_nontrivial and len(pl["ops"]) <= 8:
                samples.append({"zone": pl["zone"], "history": [{k: v for k, v in op.items() if k != "ctor"} for op in pl["ops"]], "outcomes": [r["out"] for r in val["outs"]]})
        # argument mutation: a violation on its own
        seen_m = set()
        for hi, si, k, op in mut_reports:
            sig = {"call": op["op"], "mutation": "caller-owned argument modified", "call_settings_keys": sorted(settings_of(op))}
            key = json.dumps(sig, sort_keys=True)
            if key in seen_m:
                continue
            seen_m.add(key)
            rep.violation(sig, {"run": "h%d-mut%d" % (hi, k), "seed": seed, "zone": hists[hi]["zone"], "prefix": [], "op": op, "kind": "mutation"}, "call modified its caller's arguments: %s" % json.dumps(op, default=repr)[:300])
        # minimise and report mismatches (one per signature class before minimisation, up to a cap)
        seen_pre = Counter()
        reported = 0
        for hi, si, k, pl, op, got, fr in candidates:
            pre = (op["op"], oclass(fr), oclass(got), tuple(sorted(settings_of(op))))
            seen_pre[pre] += 1
            if seen_pre[pre] > 2 or reported >= 30:
                continue
            prefix = pl["ops"][:k]
            mini = ddmin_prefix(farm_h, pl["zone"], prefix, op, fr, oclass(got))
            if mini is None:
                # does not reproduce from the same prefix: nondeterminism in the harness or the library
                rep.harness_error("history %d call %d: mismatch did not reproduce on re-execution (%s vs fresh %s)" % (hi, k, got, fr))
                continue
            # the fresh outcome must itself be reproducible under the H hash seed (else it is a hash-seed effect)
            st2, f2 = farm_h.call("checks.c03_history:run_single", {"zone": pl["zone"], "op": op}, 300)
            hash_effect = st2 == "ok" and f2["out"] != fr
            simp = simplify_args(farm_h, farm_o, pl["zone"], mini, op, oclass(got))
            if simp is not None:
                mini, op, got, fr = simp
            sig = make_signature(pl["zone"], mini, op, got, fr)
            if hash_effect and not mini:
                sig["hash_seed_effect"] = True
            reported += 1
            rep.violation(sig, {"run": "h%d-c%d" % (hi, k), "seed": seed, "zone": pl["zone"], "prefix": mini, "op": op, "observed": got, "fresh": fr, "kind": "history", "hashseeds": [hs_h, hs_o]},
                          "after %d earlier call(s) %s the call %s returned %s; alone in a fresh process it returns %s" % (len(mini), json.dumps([_brief(q) for q in mini], default=repr)[:500], json.dumps(_brief(op), default=repr)[:300], got, fr))
    wall = time.time() - t0
    coverage = {
        "evaluations": n_eval,
        "distinct_nontrivial": len(nontrivial),
        "rule": RULE,
        "samples": samples or [{"note": "none captured"}],
        "histories": nhist,
        "segments": len(seg_payloads),
        "distinct_calls_sent_to_oracle": len(keys),
        "histories_per_hour": int(nhist / max(wall, 1e-6) * 3600),
        "seeds": [seed],
        "hash_seeds": {"history": hs_h, "oracle": hs_o},
        "op_kinds": dict(kinds),
        "fault_kinds_fired": {"failing_calls_by_exception": dict(exc_classes), "cache_evictions": evictions, "regex_purges": kinds.get("purge", 0), "restarts": sum(1 for h in hists for op in h["ops"] if op["op"] == "restart")},
        "distinct_abstract_states": len(state_set),
        "mismatch_candidates": len(candidates),
        "simulated_time": "frozen per call; instants 1995..2034 carried by each call",
        "real_vs_stub": {"real": ["dateparser (all of it)", "regex", "pytz", "tzlocal", "dateutil", "convertdate/hijridate"], "stub": ["system clock (frozen per call)", "process zone (TZ)"]},
    }
    if not evictions:
        print("warning: probe 'cache_evictions' stuck at zero")
    return rep.finish(coverage, ASSUMPTIONS)


def _brief(op):
    return {k: v for k, v in op.items() if k not in ("clock_us", "ctor", "slot")}


def replay(args, rep):
    with open(args.replay) as f:
        rp = json.load(f)
    hs = rp.get("hashseeds", [0, 4242])
    with Farm(n=1, hashseed=hs[0], preload=["checks.c03_history"]) as farm_h, Farm(n=1, hashseed=hs[1], preload=["checks.c03_history"]) as farm_o:
        st, val = farm_h.call("checks.c03_history:run_history", {"zone": rp["zone"], "ops": rp["prefix"] + [rp["op"]]}, 300)
        st2, fr = farm_o.call("checks.c03_history:run_single", {"zone": rp["zone"], "op": rp["op"]}, 300)
    if st != "ok" or st2 != "ok":
        print("HARNESS replay leaf: %s %s" % (val, fr))
        return 2
    got = val["outs"][-1]
    print(json.dumps({"after_prefix": got, "fresh": fr}, indent=1, default=repr))
    bad = got["out"] != fr["out"] or got["mut"]
    if bad:
        print("VIOLATION property=%s replay=%s" % (PROP, args.replay))
        return 1
    print("replay: no violation")
    return 0
