"""C14 -- custom date_formats round-trip what the format expresses.

The simulator owns the system clock and the process zone: a missing year
("current year") and 'current' day / month completion read the clock -- three
separate reads, in the process-local zone, ignoring RELATIVE_BASE.  Workload:
formats x datetimes x (English | localized month/weekday names), rendered by
the harness (no strftime), parsed back with date_formats=[format].
"""
import calendar
import datetime as dt

from simkit import clockdrive, world
from simkit.canon import canon_dt, dec_value, enc_value

PROP = "C14"
LEVEL = "exploration"

EN_MONTHS = ["January", "February", "March", "April", "May", "June", "July", "August", "September", "October", "November", "December"]
EN_DAYS = ["Monday", "Tuesday", "Wednesday", "Thursday", "Friday", "Saturday", "Sunday"]
MONTH_KEYS = [m.lower() for m in EN_MONTHS]
DAY_KEYS = [d.lower() for d in EN_DAYS]

FORMATS = [
    # numeric, complete
    "%Y-%m-%d", "%d/%m/%Y", "%m/%d/%Y", "%d.%m.%Y", "%Y%m%d", "%d-%m-%y", "%y/%m/%d", "%Y-%m-%d %H:%M:%S",
    "%Y-%m-%dT%H:%M:%S.%f", "%d.%m.%Y.", "%d/%m/%Y %H:%M:", "%d.%m.%Y %H:%M:%S,%f", "%Y-%m-%d %H.%M.%S.%f", "%Y%m%d%H%M%S%f", "%d/%m/%Y %I:%M %p", "%m/%d/%y %I:%M:%S %p", "%H:%M %d.%m.%Y", "%Y/%m/%d %H:%M", "%Y %j", "%Y-%j %H:%M",
    # named, complete
    "%d %B %Y", "%B %d, %Y", "%d %b %Y", "%b %d %Y %H:%M", "%A, %d %B %Y", "%a %d %b %Y", "%A %d %B %Y %H:%M:%S",
    "%d %B %Y %I:%M %p", "%d-%b-%y", "%Y %B %d",
    # partial
    "%B %Y", "%b %Y", "%m/%Y", "%Y-%m", "%Y", "%y", "%d %B", "%d/%m", "%B %d", "%d %b %H:%M", "%B", "%b", "%m", "%d",
    "%H:%M", "%I:%M %p", "%H:%M:%S.%f", "%H:%M:%S", "%d %H:%M", "%Y %H:%M",
    # year-less day-of-year
    "%j %H:%M", "%H:%M:%S (%j)", "%j",
]
NAMED = [f for f in FORMATS if any(x in f for x in ("%B", "%b", "%A", "%a"))]

RULE = (
    "one evaluation = one parse(s, date_formats=[f], ...) under a simulated clock/zone, s rendered by the harness from a drawn datetime; "
    "non-trivial = at least one field of the result had to come from the simulated clock (missing year, or 'current' day/month), or the string used localized names; "
    "distinct by (format, missing parts, PREFER_DAY_OF_MONTH, PREFER_MONTH_OF_YEAR, clock boundary class, zone class, tick policy) and by (format, language) for localized names"
)
ASSUMPTIONS = [
    "expected value: fields the format expresses come from the rendered datetime; missing year = current year, missing day/month per PREFER_* with clamping to the last valid day; 'current' and the missing year are today's in the process-local zone (what datetime.today() means to a caller; the design-phase relaxation that also accepted the UTC date was dropped: it let a local->UTC switch of the clock read go unnoticed)",
    "under a ticking clock each clock-derived field may come from any instant the call read (the statement says 'the current year', not one atomic now)",
    "a stated day that does not exist in the completed (year, month) is not judged; year-less formats are not rendered on Feb 29",
    "when several given formats match the string, the reading of the first one in the given order is expected (formats are applied one by one)",
    "localized names are used only if the language itself reads '15 <name> 2015' as that month in a heuristic parse (single-meaning names)",
    "pytz gives the local fields of the simulated instant (independent of the C library the code under test uses)",
]
EXPECTED_PROBES = {"prefer_dates_from_given": 1, "relative_base_given": 1, "yearless_day_of_year": 1, "several_matching_formats": 1, "rendered_time_on_a_dst_edge_of_the_process_zone": 1, "clock_year_used": 1, "clock_day_used": 1, "clock_month_used": 1, "localized": 1, "tick_straddle": 1, "utc_local_date_differ": 1}


def fields_of(fmt):
    has = set()
    if "%Y" in fmt or "%y" in fmt:
        has.add("year")
    if any(x in fmt for x in ("%m", "%B", "%b", "%j")):
        has.add("month")
    if "%d" in fmt or "%j" in fmt:
        has.add("day")
    if "%H" in fmt or "%I" in fmt:
        has.add("hour")
    if "%M" in fmt:
        has.add("minute")
    if "%S" in fmt:
        has.add("second")
    if "%f" in fmt:
        has.add("micro")
    return has


def render(fmt, d, month_full=None, month_abbr=None, day_full=None, day_abbr=None):
    """strftime replacement (no locale, no platform quirks)."""
    out, i = [], 0
    while i < len(fmt):
        c = fmt[i]
        if c == "%" and i + 1 < len(fmt):
            x = fmt[i + 1]
            i += 2
            if x == "Y":
                out.append("%04d" % d.year)
            elif x == "y":
                out.append("%02d" % (d.year % 100))
            elif x == "m":
                out.append("%02d" % d.month)
            elif x == "d":
                out.append("%02d" % d.day)
            elif x == "j":
                out.append("%03d" % d.timetuple().tm_yday)
            elif x == "H":
                out.append("%02d" % d.hour)
            elif x == "I":
                out.append("%02d" % ((d.hour % 12) or 12))
            elif x == "p":
                out.append("AM" if d.hour < 12 else "PM")
            elif x == "M":
                out.append("%02d" % d.minute)
            elif x == "S":
                out.append("%02d" % d.second)
            elif x == "f":
                out.append("%06d" % d.microsecond)
            elif x == "B":
                out.append(month_full or EN_MONTHS[d.month - 1])
            elif x == "b":
                out.append(month_abbr or EN_MONTHS[d.month - 1][:3])
            elif x == "A":
                out.append(day_full or EN_DAYS[d.weekday()])
            elif x == "a":
                out.append(day_abbr or EN_DAYS[d.weekday()][:3])
            else:
                raise ValueError(x)
        else:
            out.append(c)
            i += 1
    return "".join(out)


def local_fields(us, zone):
    import pytz

    u = world.from_us(us)
    if zone == "UTC":
        return u
    return pytz.utc.localize(u).astimezone(pytz.timezone(zone)).replace(tzinfo=None)


def expected_set(fmt, d, prefs, read_us, zone):
    """All datetimes the statement allows; empty set = not judged."""
    has = fields_of(fmt)
    pd = prefs.get("PREFER_DAY_OF_MONTH", "current")
    pm = prefs.get("PREFER_MONTH_OF_YEAR", "current")
    out = set()
    for z in (zone,):
        loc = [local_fields(us, z) for us in read_us] or [None]
        ys = sorted({x.year for x in loc if x}) or [None]
        ms = sorted({x.month for x in loc if x}) or [None]
        ds = sorted({x.day for x in loc if x}) or [None]
        for cy in ys:
            for cm in ms:
                for cd in ds:
                    year = d.year if "year" in has else cy
                    if "%j" in fmt and "year" not in has and year is not None and calendar.isleap(year) and (d.month, d.day) >= (2, 29):
                        return set()  # a year-less day-of-year >= 60 in a leap current year: the statement does not say in which calendar it counts
                    if "month" in has:
                        month = d.month
                    else:
                        month = {"first": 1, "last": 12, "current": cm}[pm]
                    if year is None or month is None:
                        continue
                    last = calendar.monthrange(year, month)[1]
                    if "day" in has:
                        day = d.day
                        if day > last:
                            return set()  # a stated day that does not exist in a (year, month) the completion may select: not judged
                    else:
                        if pd == "first":
                            day = 1
                        elif pd == "last":
                            day = last
                        else:
                            if cd is None:
                                continue
                            day = min(cd, last)
                    out.add(dt.datetime(year, month, day, d.hour if "hour" in has else 0, d.minute if "minute" in has else 0, d.second if "second" in has else 0, d.microsecond if "micro" in has else 0))
    return out


# --------------------------------------------------------------------------


def boundary_clock(rng, zone, lo_year, hi_year):
    """Simulated instant (UTC microseconds) biased to calendar boundaries *of the process zone*."""
    import pytz

    y = rng.randrange(lo_year, hi_year + 1)
    kind = rng.choice(["uniform", "uniform", "year_end", "year_start", "month_end", "month_start", "feb28", "feb29", "day_end", "mar1"])
    if kind == "uniform":
        local = dt.datetime(y, rng.randrange(1, 13), 1) + dt.timedelta(days=rng.randrange(0, 28), seconds=rng.randrange(86400), microseconds=rng.randrange(1000000))
    elif kind == "year_end":
        local = dt.datetime(y, 12, 31, 23, 59, 59, 999999) - dt.timedelta(microseconds=rng.choice([0, 0, 1, 10 ** 6, 3600 * 10 ** 6]))
    elif kind == "year_start":
        local = dt.datetime(y, 1, 1) + dt.timedelta(microseconds=rng.choice([0, 0, 1, 10 ** 6]))
    elif kind == "month_end":
        m = rng.randrange(1, 13)
        local = dt.datetime(y, m, calendar.monthrange(y, m)[1], 23, 59, 59, 999999) - dt.timedelta(microseconds=rng.choice([0, 0, 1, 10 ** 6]))
    elif kind == "month_start":
        local = dt.datetime(y, rng.randrange(1, 13), 1) + dt.timedelta(microseconds=rng.choice([0, 1]))
    elif kind == "feb28":
        local = dt.datetime(y, 2, 28, rng.randrange(24), rng.randrange(60))
    elif kind == "feb29":
        y = rng.choice([yy for yy in range(lo_year, hi_year + 1) if calendar.isleap(yy)])
        local = dt.datetime(y, 2, 29, rng.randrange(24), rng.randrange(60))
    elif kind == "mar1":
        local = dt.datetime(y, 3, 1, 0, 0, 0)
    else:
        local = dt.datetime(y, rng.randrange(1, 13), rng.randrange(1, 29), 23, 59, 59, 999999)
    if zone == "UTC":
        u = local
    else:
        tz = pytz.timezone(zone)
        try:
            u = tz.localize(local, is_dst=None).astimezone(pytz.utc).replace(tzinfo=None)
        except Exception:
            u = tz.localize(local, is_dst=False).astimezone(pytz.utc).replace(tzinfo=None)
    return world.to_us(u), kind


def dst_edge_wall(rng, zone):
    """A naive wall time inside a gap (skipped) or an overlap (repeated) of `zone`, 1952..2035."""
    import pytz

    tz = pytz.timezone(zone)
    tt = getattr(tz, "_utc_transition_times", None)
    ti = getattr(tz, "_transition_info", None)
    if not tt or not ti:
        return None
    idx = [i for i in range(1, len(tt)) if 1952 <= tt[i].year <= 2035 and ti[i][0] != ti[i - 1][0]]
    if not idx:
        return None
    i = rng.choice(idx)
    before, after = ti[i - 1][0], ti[i][0]
    lo, hi = sorted([tt[i] + before, tt[i] + after])  # gap or overlap interval in wall-clock terms
    span = int((hi - lo).total_seconds())
    return (lo + dt.timedelta(seconds=rng.randrange(0, max(1, span)))).replace(microsecond=0)


def draw_policy(rng, tier):
    r = rng.random()
    if r < 0.7:
        return ["frozen"]
    return ["tick", rng.choice([1, 10 ** 6, 3600 * 10 ** 6, 86400 * 10 ** 6, 400 * 86400 * 10 ** 6 // 12])]


class Context:
    def __init__(self, rng, tier):
        self.tier = tier
        self.zone = rng.choice(world.ZONE_POOL) if rng.random() < 0.7 else "UTC"
        self.langs = []
        self.names = {}
        from dateparser.data import languages_info

        order = [l for l in languages_info.language_order if l != "en"]
        for L in rng.sample(order, 3):
            n = usable_names(L)
            if n["months"]:
                self.langs.append(L)
                self.names[L] = n


_names_cache = {}


def usable_names(L):
    """Month / weekday names of L that L itself reads correctly in a heuristic parse."""
    if L in _names_cache:
        return _names_cache[L]
    import importlib

    import dateparser

    info = importlib.import_module("dateparser.data.date_translation_data." + L.replace("-", "_") if False else "dateparser.data.date_translation_data." + L).info
    base = dt.datetime(2015, 6, 15)
    months, days = {}, {}
    for mi, key in enumerate(MONTH_KEYS):
        for name in info.get(key, []):
            if not name or any(ch.isdigit() for ch in name) or name != name.strip():
                continue
            try:
                r = dateparser.parse("15 %s 2015" % name, languages=[L], settings={"RELATIVE_BASE": base})
            except Exception:
                r = None
            if r == dt.datetime(2015, mi + 1, 15):
                months.setdefault(mi + 1, []).append(name)
    jan = (months.get(1) or [None])[0]
    if jan:
        for di, key in enumerate(DAY_KEYS):
            # 2015-01-05 is a Monday
            for name in info.get(key, []):
                if not name or any(ch.isdigit() for ch in name) or name != name.strip():
                    continue
                try:
                    r = dateparser.parse("%s, %d %s 2015" % (name, 5 + di, jan), languages=[L], settings={"RELATIVE_BASE": base})
                except Exception:
                    r = None
                if r == dt.datetime(2015, 1, 5 + di):
                    days.setdefault(di, []).append(name)
    _names_cache[L] = {"months": months, "days": days}
    return _names_cache[L]


def gen_case(rng, ctx):
    zone = ctx.zone
    lo, hi = (1900, 2100) if zone == "UTC" else (1950, 2037)
    clock_us, bkind = boundary_clock(rng, zone, lo, hi)
    policy = draw_policy(rng, ctx.tier)
    localized = bool(ctx.langs) and rng.random() < 0.3
    fmt = rng.choice(NAMED if localized else FORMATS)
    has = fields_of(fmt)
    # the rendered datetime
    while True:
        y = rng.randrange(1900, 2101)
        if "%y" in fmt:
            y = rng.randrange(1969, 2069)
        m = rng.randrange(1, 13)
        r = rng.random()
        if r < 0.25:
            day = calendar.monthrange(y, m)[1]
        elif r < 0.4:
            day = 1
        elif r < 0.7:
            day = rng.randrange(1, 13)  # ambiguous with month for heuristics
        else:
            day = rng.randrange(1, calendar.monthrange(y, m)[1] + 1)
        if "year" not in has and m == 2 and day == 29:
            continue
        if "%j" in fmt and "year" not in has and calendar.isleap(y):
            continue  # rendered day-of-year counts in a common year
        break
    dst_edge = False
    hour = rng.choice([0, 0, 11, 12, 13, 23, rng.randrange(24)])
    d = dt.datetime(y, m, day, hour, rng.randrange(60), rng.randrange(60), rng.choice([0, 1, 999999, rng.randrange(10 ** 6)]))
    if zone != "UTC" and "%y" not in fmt and rng.random() < 0.06:
        # a wall-clock time that the *process zone* skips or repeats (DST change): to a custom format
        # it is a datetime like any other -- the naive result must come back unchanged
        g = dst_edge_wall(rng, zone)
        if g is not None and not ("year" not in has and g.month == 2 and g.day == 29) and not ("%j" in fmt and "year" not in has and calendar.isleap(g.year)):
            d = g.replace(microsecond=d.microsecond)
            dst_edge = True
    prefs = {}
    if rng.random() < 0.7:
        prefs["PREFER_DAY_OF_MONTH"] = rng.choice(["first", "last", "current"])
    if rng.random() < 0.7:
        prefs["PREFER_MONTH_OF_YEAR"] = rng.choice(["first", "last", "current"])
    if rng.random() < 0.15:
        # the free-form parser's preference for past / future dates is not one of the preferences a
        # given format is completed by: the missing year is the current year
        prefs["PREFER_DATES_FROM"] = rng.choice(["past", "future"])
    lang = None
    kw = {}
    if localized:
        L = rng.choice(ctx.langs)
        names = ctx.names[L]
        if d.month not in names["months"]:
            localized = False
        else:
            mname = rng.choice(names["months"][d.month])
            wd = names["days"].get(d.weekday())
            if ("%A" in fmt or "%a" in fmt) and not wd:
                localized = False
            else:
                wname = rng.choice(wd) if wd else None
                lang = L
                # a localized abbreviation is not what %b expects after translation: use full-name directives only
                f2 = fmt.replace("%b", "%B").replace("%a", "%A")
                fmt = f2
                kw = {"month_full": mname, "day_full": wname}
    if not localized:
        lang = rng.choice([None, "en", "en"]) if any(x in fmt for x in ("%B", "%b", "%A", "%a")) else rng.choice([None, None, "en", "fr", "de"])
        if rng.random() < 0.3 and any(x in fmt for x in ("%B", "%b", "%A", "%a")):
            style = rng.choice(["lower", "upper"])
            kw = {
                "month_full": getattr(EN_MONTHS[d.month - 1], style)(), "month_abbr": getattr(EN_MONTHS[d.month - 1][:3], style)(),
                "day_full": getattr(EN_DAYS[d.weekday()], style)(), "day_abbr": getattr(EN_DAYS[d.weekday()][:3], style)(),
            }
    decoys = None
    if not localized and rng.random() < 0.06:
        # several formats that all match the string: the first one in the GIVEN order is the reading
        pair = rng.choice([("%m/%d/%Y", "%d/%m/%Y"), ("%d/%m/%Y", "%m/%d/%Y"), ("%y-%m-%d", "%d-%m-%y"), ("%d-%m-%y", "%y-%m-%d"), ("%d.%m.%Y", "%m.%d.%Y"), ("%H:%M", "%M:%H")])
        dd = d.replace(day=rng.randrange(1, 13), hour=rng.randrange(0, 24), minute=rng.randrange(0, 24))
        if "%y" in pair[0]:
            dd = dd.replace(year=2000 + rng.randrange(1, 13))
        fmt, decoys, d, kw, lang = pair[0], [pair[1]], dd, {}, rng.choice([None, "en"])
        has = fields_of(fmt)
    base = None
    if not localized and rng.random() < 0.12:
        # a RELATIVE_BASE somewhere else entirely: the custom-format path completes from the system
        # clock ('the current year'; 'current' day / month), so the base must be irrelevant
        base = enc_value(dt.datetime(rng.randrange(1995, 2036), rng.randrange(1, 13), rng.randrange(1, 29), rng.randrange(24), rng.randrange(60)))
    s = render(fmt, d, **kw)
    if localized:
        # a localized name that happens to be an English name makes the raw string match the
        # format, and then the raw reading wins by the statement itself: render in English instead
        try:
            dt.datetime.strptime(s, fmt)
            localized, lang, kw = False, "en", {}
            s = render(fmt, d)
        except ValueError:
            pass
    return {
        "zone": zone, "clock_us": clock_us, "policy": policy, "boundary": bkind, "fmt": fmt, "d": [d.year, d.month, d.day, d.hour, d.minute, d.second, d.microsecond],
        "string": s, "lang": lang, "localized": bool(localized), "prefs": prefs, "dst_edge": dst_edge, "later_formats": decoys, "base": base,
    }


def describe(case):
    return {k: case[k] for k in ("string", "fmt", "lang", "prefs", "zone", "policy")} | {"clock_utc": str(world.from_us(case["clock_us"]))}


def simplify(case):
    """Candidate simpler cases (tried in order, kept when the same signature persists)."""
    for k in list(case["prefs"]):
        c = dict(case, prefs={x: v for x, v in case["prefs"].items() if x != k})
        yield c
    if case["policy"][0] != "frozen":
        yield dict(case, policy=["frozen"])
    if case["zone"] != "UTC":
        yield dict(case, zone="UTC")
    if case.get("base") is not None:
        yield dict(case, base=None)


def eval_case(case):
    import dateparser

    world.set_zone(case["zone"])
    clk = world.clock()
    clk.set(case["clock_us"], case["policy"])
    n0 = len(clk.reads)
    d = dt.datetime(*case["d"])
    settings = dict(case["prefs"]) or None
    stats = {}
    if "PREFER_DATES_FROM" in case["prefs"]:
        stats["prefer_dates_from_given"] = 1
    if case.get("base") is not None:
        settings = dict(settings or {}, RELATIVE_BASE=dec_value(case["base"]))
        stats["relative_base_given"] = 1
    kwargs = {"date_formats": [case["fmt"]] + list(case.get("later_formats") or [])}
    if case.get("later_formats"):
        stats["several_matching_formats"] = 1
    if case["lang"]:
        kwargs["languages"] = [case["lang"]]
    if settings:
        kwargs["settings"] = settings
    try:
        res = dateparser.parse(case["string"], **kwargs)
        outcome = ["ok", canon_dt(res)]
    except Exception as e:  # noqa
        res = None
        outcome = ["exc", type(e).__name__]
    reads = [us for (_, us) in clk.reads[n0:]]
    has = fields_of(case["fmt"])
    exp = expected_set(case["fmt"], d, case["prefs"], reads or [case["clock_us"]], case["zone"])
    pd = case["prefs"].get("PREFER_DAY_OF_MONTH", "current")
    pm = case["prefs"].get("PREFER_MONTH_OF_YEAR", "current")
    clock_fields = []
    if "year" not in has:
        clock_fields.append("year")
        stats["clock_year_used"] = 1
    if "month" not in has and pm == "current":
        clock_fields.append("month")
        stats["clock_month_used"] = 1
    if "day" not in has and pd == "current":
        clock_fields.append("day")
        stats["clock_day_used"] = 1
    if case["localized"]:
        stats["localized"] = 1
    if "%j" in case["fmt"] and "year" not in has:
        stats["yearless_day_of_year"] = 1
    if case.get("dst_edge"):
        stats["rendered_time_on_a_dst_edge_of_the_process_zone"] = 1
    if reads and len({local_fields(u, case["zone"]).date() for u in reads}) > 1:
        stats["tick_straddle"] = 1
    lf, uf = local_fields(case["clock_us"], case["zone"]), world.from_us(case["clock_us"])
    if lf.date() != uf.date():
        stats["utc_local_date_differ"] = 1
    if lf.year != uf.year:
        stats["utc_local_year_differ"] = 1
    if exp and case["localized"]:
        # judged only if the language itself reads this very string that way without formats
        clk.set(case["clock_us"], case["policy"])
        kw2 = {k: v for k, v in kwargs.items() if k != "date_formats"}
        try:
            h = dateparser.parse(case["string"], **kw2)
        except Exception:  # noqa
            h = None
        if h not in exp:
            stats["localized_string_not_understood_by_language"] = 1
            exp = set()
    if not exp:
        stats["unjudged"] = 1
        return {"ok": True, "key": None, "stats": stats, "reads": len(reads), "outcome": outcome}
    ok = outcome[0] == "ok" and res in exp and type(res) is dt.datetime
    key = None
    if clock_fields or case["localized"]:
        zc = "utc" if case["zone"] == "UTC" else ("datediff" if lf.date() != uf.date() else "same")
        if case["localized"]:
            key = ("loc", case["fmt"], case["lang"])
        else:
            key = ("clk", case["fmt"], ",".join(clock_fields), pd, pm, case["boundary"], zc, case["policy"][0])
    missing = sorted({"year", "month", "day"} - has)
    sig = None
    detail = None
    if not ok:
        kind = "exception" if outcome[0] == "exc" else ("none" if res is None else "wrong-value")
        wrong = []
        if res is not None and outcome[0] == "ok":
            best = min(exp, key=lambda e: sum(getattr(e, f) != getattr(res, f) for f in ("year", "month", "day", "hour", "minute", "second", "microsecond")))
            wrong = [f for f in ("year", "month", "day", "hour", "minute", "second", "microsecond") if getattr(best, f) != getattr(res, f)]
        sig = {"parser": "custom-formats", "missing": missing, "kind": kind, "wrong_fields": wrong, "localized": case["localized"],
               "pref_day": pd if "day" in missing else None, "pref_month": pm if "month" in missing else None}
        if case["localized"]:
            sig["lang"] = case["lang"]
        detail = "parse(%r, date_formats=[%r], languages=%r, settings=%r) under clock %s (%s, %s) -> %s; expected one of %s" % (
            case["string"], case["fmt"], case["lang"], settings, world.from_us(case["clock_us"]), case["zone"], case["policy"], res if outcome[0] == "ok" else outcome, sorted(map(str, exp))[:4])
    return {"ok": ok, "key": key, "sig": sig, "detail": detail, "stats": stats, "reads": len(reads), "outcome": outcome, "expected": sorted(map(str, exp))[:4]}


def main(args):
    nruns, ncases = (240, 500) if args.tier == "quick" else (8000, 600)
    return clockdrive.drive(__import__("checks.c14_formats", fromlist=["x"]), args, nruns, ncases, 14)
