"""C19 -- import survives a missing, empty or truncated on-disk timezone cache.

Layer (a)  state-based crash enumeration: every state a crash / full disk /
           racing reader can leave of the single cache file (missing, empty,
           byte prefix k, garbage, wrong-shape pickle) is put at the cache path
           of a scratch copy of the package and the *real* ``import dateparser``
           runs against it in a fresh process; then a second import runs
           against whatever the first left behind.
Layer (b)  op-level simulated disk with 2-3 importer "processes" under a seeded
           scheduler with crash / torn write / ENOSPC / EIO injection
           (checks/c19_simdisk.py).
Layer (c)  real ``python -c 'import dateparser'`` subprocesses against a
           scratch copy for a seeded sample of states, compared with (a).
Layer (d)  a real interpreter is killed in the middle of its cache write
           (pickle.dump cut after a seeded number of bytes), then two real
           imports follow: whatever the dead writer left (truncated cache,
           stale temporary file) must not stop the repair.

Nothing under the tree under test is ever written: all damaged files live in
scratch copies under $VERIF_TMP (/dev/shm by default), removed in a finally.
"""
import hashlib
import json
import os
import pickle
import shutil
import subprocess
import sys
import time

from simkit import env, report, seeds
from simkit.farm import Farm

PROP = "C19"
CACHE_REL = os.path.join("dateparser", "data", "dateparser_tz_cache.pkl")
DEPS = ["regex", "pytz", "tzlocal", "dateutil.relativedelta", "dateutil.parser", "pickle", "zlib", "hashlib", "calendar", "logging", "unicodedata", "collections", "importlib.util", "pathlib", "tempfile", "convertdate", "hijridate"]


# --------------------------------------------------------------------------
# leaf side
# --------------------------------------------------------------------------


def _copy_pkg(repo, dst):
    os.makedirs(dst, exist_ok=True)
    ign = shutil.ignore_patterns("__pycache__", "*.pyc")
    shutil.copytree(os.path.join(repo, "dateparser"), os.path.join(dst, "dateparser"), ignore=ign)
    shutil.copytree(os.path.join(repo, "dateparser_data"), os.path.join(dst, "dateparser_data"), ignore=ign)


def _ensure_scratch(base, repo):
    # the install path contains a '%' and a space on purpose (Jenkins 'feature%2Ftz', 'My Project')
    d = os.path.join(base, "w%d %%2Fx" % os.getppid())
    if not os.path.isdir(os.path.join(d, "dateparser")):
        tmp = d + ".tmp%d" % os.getpid()
        _copy_pkg(repo, tmp)
        os.rename(tmp, d)
    return d


def state_bytes(state, shipped):
    k = state["kind"]
    if k == "missing":
        return None
    if k == "shipped":
        return shipped
    if k == "empty":
        return b""
    if k == "prefix":
        return shipped[: state["k"]]
    if k == "garbage":
        rng = seeds.rng_for(state["seed"], PROP, "garbage")
        return bytes(rng.randrange(256) for _ in range(state["n"]))
    if k == "zeros":
        return b"\0" * state["n"]
    if k == "text":
        return state["text"].encode()
    if k == "wrongshape":
        return pickle.dumps(state["obj"], protocol=5)
    if k == "prefix_of_rebuilt":
        raise ValueError("needs rebuilt bytes")
    raise ValueError(k)


def _purge():
    for m in [m for m in sys.modules if m == "dateparser" or m.startswith("dateparser.") or m == "dateparser_data" or m.startswith("dateparser_data.")]:
        del sys.modules[m]
    for m in ("strptime_patched", "calendar_patched"):
        sys.modules.pop(m, None)


def canon_table(tp):
    """Canonical form of the timezone table an import yielded."""
    out = {}
    offs = getattr(tp, "_tz_offsets", None)
    if offs is not None:
        rows = []
        for name, info in offs:
            rows.append((name, info["regex"].pattern, int(info["regex"].flags), info["offset"].total_seconds()))
        out["rows"] = hashlib.sha256(repr(rows).encode()).hexdigest()
        out["nrows"] = len(rows)
    for nm in ("_search_regex", "_search_regex_ignorecase"):
        r = getattr(tp, nm, None)
        if r is not None:
            out[nm] = hashlib.sha256((r.pattern + "|%d" % int(r.flags)).encode()).hexdigest()
    return out


PROBES = [
    "12:00 UTC", "12:00 EST", "10 May 2020 10:00 +0530", "10 May 2020 10:00 -03:30", "1 Jan 2001 5pm PST",
    "12:00 CEST", "12:00 IST", "12:00 UTC+2", "12:00 GMT-11", "12:00 AKDT", "noon NZDT", "12:00 ACWST",
    "12:00 WIB", "foo bar", "12:00 xyz", "12:00 utc", "12:00 est", "12:00 Z", "12:00 +14:00", "12:00 MSK",
]
WORDS = ["UTC", "EST", "PST", "CEST", "foo", "utc", "IST", "+0530", "MSK", "ZZZ", "AEST", "WIB", "NZDT"]


def probe_functions(tp):
    res = []
    for s in PROBES:
        r = tp.pop_tz_offset_from_string(s)
        tz = r[1]
        res.append((r[0], None if tz is None else (tz.tzname(None), tz.utcoffset(None).total_seconds())))
    for w in WORDS:
        res.append(bool(tp.word_is_tz(w)))
    return hashlib.sha256(repr(res).encode()).hexdigest()


def _file_info(path):
    try:
        st = os.stat(path)
    except FileNotFoundError:
        return None
    with open(path, "rb") as f:
        data = f.read()
    return {"size": st.st_size, "ino": st.st_ino, "mtime_ns": st.st_mtime_ns, "sha": hashlib.sha256(data).hexdigest()}


def _file_complete(path):
    """Does the file on disk unpickle completely, and which table does it carry?"""
    try:
        with open(path, "rb") as f:
            obj = pickle.load(f)
            rest = f.read()
    except FileNotFoundError:
        return {"ok": False, "why": "missing"}
    except BaseException as e:  # noqa
        return {"ok": False, "why": type(e).__name__}
    out = {"ok": True, "trailing": len(rest)}
    try:
        if isinstance(obj, tuple) and len(obj) == 4:
            class _T:
                pass

            t = _T()
            t._tz_offsets, t._search_regex, t._search_regex_ignorecase = obj[1], obj[2], obj[3]
            out["table"] = canon_table(t)
    except BaseException as e:  # unknown shape: only completeness is judged
        out["table_err"] = type(e).__name__
    return out


def _import_once():
    """The real import, in this process, of the package copy on sys.path[0]."""
    _purge()
    try:
        import dateparser  # noqa: F401
        import dateparser.timezone_parser as tp
    except BaseException as e:  # noqa
        return {"status": "exc", "exc": type(e).__name__, "msg": str(e)[:200]}
    try:
        return {"status": "ok", "table": canon_table(tp), "probe": probe_functions(tp), "parse": repr(dateparser.parse("1 Jan 2001 5pm PST"))}
    except BaseException as e:  # noqa
        return {"status": "exc", "exc": "post:" + type(e).__name__, "msg": str(e)[:200]}


def _other_filesystem_tmpdir(scratch):
    """The system temp dir is deliberately on ANOTHER file system than the package copy (as it is
    for a package installed under /usr or a venv with /tmp on tmpfs): a temp file created there
    cannot be renamed into place."""
    import tempfile

    cand = "/tmp" if scratch.startswith("/dev/shm") else "/dev/shm"
    try:
        if os.path.isdir(cand) and os.access(cand, os.W_OK) and os.stat(cand).st_dev != os.stat(scratch).st_dev:
            os.environ["TMPDIR"] = cand
            tempfile.tempdir = None
            return cand
    except OSError:
        pass
    return None


def run_state(p):
    """Leaf: one damaged state, two consecutive real imports."""
    repo = env.repo_dir()
    sys.dont_write_bytecode = False
    scratch = _ensure_scratch(p["scratch"], repo)
    _other_filesystem_tmpdir(scratch)
    if p.get("strict_warnings"):
        # interpreter configuration knob: warnings are errors (python -W error)
        import warnings

        warnings.simplefilter("error")
    cache = os.path.join(scratch, CACHE_REL)
    with open(os.path.join(repo, CACHE_REL), "rb") as f:
        shipped = f.read()
    if p["state"]["kind"] == "prefix_of_rebuilt":
        with open(p["rebuilt_path"], "rb") as f:
            data = f.read()[: p["state"]["k"]]
    else:
        data = state_bytes(p["state"], shipped)
    if data is None:
        if os.path.exists(cache):
            os.remove(cache)
    else:
        with open(cache, "wb") as f:
            f.write(data)
    # stray temp files of earlier leaves on this worker are part of no state
    ddir = os.path.dirname(cache)
    for fn in os.listdir(ddir):
        if fn.startswith("dateparser_tz_cache") and fn != "dateparser_tz_cache.pkl" or ".tmp" in fn:
            try:
                os.remove(os.path.join(ddir, fn))
            except OSError:
                pass
    if p["build_env"]:
        os.environ["BUILD_TZ_CACHE"] = "1"
    else:
        os.environ.pop("BUILD_TZ_CACHE", None)
    if sys.path[0] != scratch:
        sys.path.insert(0, scratch)
    before = _file_info(cache)
    t0 = time.perf_counter()
    first = _import_once()
    t1 = time.perf_counter()
    after1 = _file_info(cache)
    complete1 = _file_complete(cache)
    second = _import_once()
    t2 = time.perf_counter()
    after2 = _file_info(cache)
    _dp = sys.modules.get("dateparser")
    loaded_from = os.path.dirname(os.path.dirname(getattr(_dp, "__file__", "") or "")) if _dp is not None else None
    ref = None
    if p.get("want_reference") and first["status"] == "ok":
        import dateparser.timezone_parser as tp

        class _T:
            pass

        t = _T()
        parts = []
        t._tz_offsets = list(tp.build_tz_offsets(parts))
        import regex as re

        t._search_regex = re.compile("|".join(parts))
        t._search_regex_ignorecase = re.compile("|".join(parts), re.IGNORECASE)
        ref = canon_table(t)
    if p.get("save_rebuilt_to") and after1:
        shutil.copyfile(cache, p["save_rebuilt_to"])
    return {
        "state": p["state"], "build_env": p["build_env"], "before": before, "first": first, "after1": after1,
        "complete1": complete1, "second": second, "after2": after2, "t_first": t1 - t0, "t_second": t2 - t1,
        "strict_warnings": bool(p.get("strict_warnings")), "loaded_from": loaded_from, "scratch": scratch, "built_reference": ref, "nbytes": None if data is None else len(data),
    }


# --------------------------------------------------------------------------
# judging
# --------------------------------------------------------------------------


def judge(res, ref):
    """Return list of (invariant, detail) broken by one state result."""
    bad = []
    f, s = res["first"], res["second"]
    if f["status"] != "ok":
        bad.append(("I1-import-raises", f["exc"]))
    else:
        if f["table"] != ref["table"] or f["probe"] != ref["probe"] or f["parse"] != ref["parse"]:
            bad.append(("I2-table-differs", "first import"))
    c = res["complete1"]
    if f["status"] == "ok":
        if not c["ok"]:
            bad.append(("I3-file-incomplete-after-import", c.get("why")))
        elif "table" in c and c["table"] != ref["table"]:
            bad.append(("I3-file-carries-wrong-table", ""))
    if s["status"] != "ok":
        bad.append(("I4-second-import-raises", s["exc"]))
    elif s["table"] != ref["table"] or s["probe"] != ref["probe"]:
        bad.append(("I4-second-table-differs", ""))
    return bad


def state_class(state):
    k = state["kind"]
    return k


def signature(res, bad):
    return {"layer": "a", "state_kind": state_class(res["state"]), "invariant": bad[0][0], "detail": bad[0][1]}


# --------------------------------------------------------------------------
# main side
# --------------------------------------------------------------------------


def frame_points(shipped):
    import pickletools

    pts = set()
    try:
        for op, arg, pos in pickletools.genops(shipped):
            if op.name == "FRAME":
                for d in (-1, 0, 1, 9, 10):
                    pts.add(pos + d)
                pts.add(pos + 9 + arg)
    except Exception:
        pass
    return pts


def record_points(data):
    """Ends of the top-level pickles of a file that is a SEQUENCE of pickles (read until EOFError):
    a cut exactly there looks like a clean end of input to such a reader."""
    import io
    import pickletools

    pts = set()
    bio = io.BytesIO(data)
    try:
        while bio.tell() < len(data):
            for _ in pickletools.genops(bio):
                pass
            end = bio.tell()
            pts.update((end - 1, end, end + 1, end + 2, end + 3))
    except Exception:
        pass
    return pts


def write_chunk_points(shipped):
    """Boundaries of the write() calls pickle.dump issues for this content."""
    try:
        obj = pickle.loads(shipped)
    except Exception:
        return set()

    class W:
        def __init__(self):
            self.sizes = []

        def write(self, b):
            self.sizes.append(len(b))
            return len(b)

    w = W()
    pickle.dump(obj, w, protocol=5)
    pts, acc = set(), 0
    for s in w.sizes:
        acc += s
        pts.update((acc - 1, acc, acc + 1))
    return pts


def build_states(tier, seed, shipped, runs=None):
    n = len(shipped)
    rng = seeds.rng_for(seed, PROP, "states")
    fixed = [
        {"kind": "shipped"}, {"kind": "missing"}, {"kind": "empty"},
        {"kind": "garbage", "n": 1, "seed": seed}, {"kind": "garbage", "n": 57, "seed": seed + 1}, {"kind": "garbage", "n": 5000, "seed": seed + 2},
        {"kind": "zeros", "n": 4096}, {"kind": "text", "text": "not a pickle\n"}, {"kind": "text", "text": "\x80"},
        {"kind": "wrongshape", "obj": None}, {"kind": "wrongshape", "obj": [1, 2, 3]}, {"kind": "wrongshape", "obj": (1, 2, 3)},
        {"kind": "wrongshape", "obj": (1, 2, 3, 4, 5)}, {"kind": "wrongshape", "obj": {"a": 1}}, {"kind": "wrongshape", "obj": "str"},
        {"kind": "wrongshape", "obj": 7},
    ]
    if tier == "thorough" and runs is None:
        ks = list(range(1, n))
        exhaustive = True
    else:
        structural = {1, 2, 3, 10, 11, 12, n - 1, n - 2, n - 3, n // 2}
        structural |= frame_points(shipped) | write_chunk_points(shipped)
        structural = {k for k in structural if 1 <= k < n}
        m = runs if runs is not None else 330
        sampled = set()
        while len(sampled) < min(m, n - 1 - len(structural)):
            k = rng.randrange(1, n)
            if k not in structural:
                sampled.add(k)
        ks = sorted(structural | sampled)
        exhaustive = False
    states = fixed + [{"kind": "prefix", "k": k} for k in ks]
    return states, exhaustive


def real_import(scratch, build_env, optimize=False, no_bytecode=False, how="main"):
    """Layer (c): a genuinely separate interpreter (optionally started with -O / -B).  how: 'main' = plain
    import on the main thread; 'thread' = the process's first import happens on a worker thread (lazy
    import in a request handler / executor); 'hard-exit' = the importer ends with os._exit right after
    the import, as prefork / multiprocessing workers do (no atexit hooks run)."""
    e = dict(os.environ)
    e["PYTHONPATH"] = scratch
    e.pop("BUILD_TZ_CACHE", None)
    if build_env:
        e["BUILD_TZ_CACHE"] = "1"
    e["PYTHONHASHSEED"] = "0"
    e.pop("PYTHONDONTWRITEBYTECODE", None)
    other = _other_filesystem_tmpdir(scratch)
    if other:
        e["TMPDIR"] = other
    code = (
        "import sys; sys.path.insert(0, %r); sys.path.insert(1, %r)\n"
        "def imp():\n"
        "    import dateparser, dateparser.timezone_parser as tp\n"
        "    from checks.c19_crash import canon_table, probe_functions\n"
        "    import json; print('RESULT', json.dumps({'table': canon_table(tp), 'probe': probe_functions(tp), 'file': dateparser.__file__})); sys.stdout.flush()\n"
    ) % (scratch, env.VERIF_DIR)
    if how == "thread":
        code += "import threading\nerr = []\ndef run():\n    try:\n        imp()\n    except BaseException as e:\n        import traceback; traceback.print_exc(); err.append(e)\nt = threading.Thread(target=run); t.start(); t.join()\nsys.exit(1 if err else 0)\n"
    elif how == "hard-exit":
        code += "import os\nimp()\nsys.stderr.flush()\nos._exit(0)\n"
    else:
        code += "imp()\n"
    pr = subprocess.run([sys.executable] + (["-O"] if optimize else []) + (["-B"] if no_bytecode else []) + ["-c", code], env=e, capture_output=True, text=True, timeout=120, cwd="/")
    out = {"rc": pr.returncode, "err": pr.stderr.strip().splitlines()[-1:] if pr.returncode else []}
    for line in pr.stdout.splitlines():
        if line.startswith("RESULT "):
            out.update(json.loads(line[7:]))
    return out


def run_real(p):
    """Leaf wrapper for layer (c): put state, run two real interpreters."""
    repo = env.repo_dir()
    scratch = _ensure_scratch(p["scratch"], repo)
    cache = os.path.join(scratch, CACHE_REL)
    with open(os.path.join(repo, CACHE_REL), "rb") as f:
        shipped = f.read()
    data = state_bytes(p["state"], shipped)
    if data is None:
        if os.path.exists(cache):
            os.remove(cache)
    else:
        with open(cache, "wb") as f:
            f.write(data)
    r1 = real_import(scratch, p["build_env"], p.get("optimize", False), p.get("no_bytecode", False), p.get("how", "main"))
    c1 = _file_complete_subprocess(scratch)
    r2 = real_import(scratch, p["build_env"], p.get("optimize", False), p.get("no_bytecode", False))
    return {"state": p["state"], "build_env": p["build_env"], "optimize": p.get("optimize", False), "no_bytecode": p.get("no_bytecode", False), "how": p.get("how", "main"), "r1": r1, "complete1": c1, "r2": r2}


CRASHER = r"""
import os, pickle, sys
sys.path.insert(0, %(scratch)r)
_cut = %(cut)d
_real_dump = pickle.dump
def _dump(obj, file, *a, **k):
    data = pickle.dumps(obj, *a, **k)
    file.write(data[:_cut %% max(1, len(data))])
    file.flush()
    os._exit(9)          # the process dies in the middle of its cache write
pickle.dump = _dump
import dateparser
os._exit(0)              # no write was attempted
"""


def run_crash_then_import(p):
    """Layer (d): a REAL interpreter is killed in the middle of writing the cache (pickle.dump is cut
    after a seeded number of bytes), then two ordinary real imports follow.  Whatever the crashed
    writer left behind -- a truncated cache, a stale temporary file -- must not stop the repair."""
    repo = env.repo_dir()
    scratch = _ensure_scratch(p["scratch"], repo)
    cache = os.path.join(scratch, CACHE_REL)
    ddir = os.path.dirname(cache)
    with open(os.path.join(repo, CACHE_REL), "rb") as f:
        shipped = f.read()
    for fn in os.listdir(ddir):
        if not fn.endswith(".py") and fn not in ("date_translation_data", "__pycache__"):
            os.remove(os.path.join(ddir, fn))
    data = state_bytes(p["state"], shipped)
    if data is not None:
        with open(cache, "wb") as f:
            f.write(data)
    e = dict(os.environ)
    e.pop("BUILD_TZ_CACHE", None)
    if p["build_env"]:
        e["BUILD_TZ_CACHE"] = "1"
    e["PYTHONHASHSEED"] = "0"
    pr = subprocess.run([sys.executable, "-c", CRASHER % {"scratch": scratch, "cut": p["cut"]}], env=e, capture_output=True, text=True, timeout=120, cwd="/")
    left = sorted(fn for fn in os.listdir(ddir) if not fn.endswith(".py") and fn not in ("date_translation_data", "__pycache__"))
    r1 = real_import(scratch, p["build_env"])
    c1 = _file_complete_subprocess(scratch)
    r2 = real_import(scratch, p["build_env"])
    out = {"state": p["state"], "build_env": p["build_env"], "cut": p["cut"], "crasher_rc": pr.returncode, "left_behind": [("CACHE" if fn == "dateparser_tz_cache.pkl" else "OTHER") for fn in left], "r1": r1, "complete1": c1, "r2": r2}
    for fn in os.listdir(ddir):
        if not fn.endswith(".py") and fn not in ("date_translation_data", "__pycache__", "dateparser_tz_cache.pkl"):
            os.remove(os.path.join(ddir, fn))
    return out


def _file_complete_subprocess(scratch):
    code = (
        "import sys; sys.path.insert(0, %r); sys.path.insert(1, %r)\n"
        "import pickle, json\n"
        "try:\n"
        "    obj = pickle.load(open(%r, 'rb')); print('RESULT', json.dumps({'ok': True}))\n"
        "except BaseException as e:\n"
        "    print('RESULT', json.dumps({'ok': False, 'why': type(e).__name__}))\n"
    ) % (scratch, env.VERIF_DIR, os.path.join(scratch, CACHE_REL))
    # unpickling needs dateparser.timezone_parser importable -> which itself loads
    # the cache; so judge completeness with a plain pickle scan instead.
    import pickletools

    try:
        with open(os.path.join(scratch, CACHE_REL), "rb") as f:
            data = f.read()
        n = 0
        for _ in pickletools.genops(data):
            n += 1
        return {"ok": True, "ops": n}
    except FileNotFoundError:
        return {"ok": False, "why": "missing"}
    except BaseException as e:  # noqa
        return {"ok": False, "why": type(e).__name__}


def main(args):
    tier = args.tier
    seed = seeds.base_seed(19)
    rep = report.Reporter(PROP, tier, seed, "fault_enumeration")
    repo = env.repo_dir()
    with open(os.path.join(repo, CACHE_REL), "rb") as f:
        shipped = f.read()
    base = os.path.join(env.scratch_root(), "verif-c19-%d" % os.getpid())
    os.makedirs(base, exist_ok=True)
    try:
        if args.replay:
            return replay(args, rep, base)
        return explore(args, rep, base, shipped, tier, seed)
    finally:
        shutil.rmtree(base, ignore_errors=True)


def make_farm():
    return Farm(template="none", preload=DEPS + ["checks.c19_crash"], extra_env={"PYTHONDONTWRITEBYTECODE": ""})


def replay(args, rep, base):
    with open(args.replay) as f:
        rp = json.load(f)
    if rp.get("layer") == "b":
        from checks import c19_simdisk

        return c19_simdisk.replay(rp, rep, base, args.replay)
    if rp.get("layer") == "c":
        with make_farm() as farm:
            ref = farm.call("checks.c19_crash:run_state", {"scratch": base, "state": {"kind": "shipped"}, "build_env": False}, 120)[1]["first"]
            st, val = farm.call("checks.c19_crash:run_real", {"scratch": base, "state": rp["state"], "build_env": rp["build_env"], "optimize": rp.get("optimize", False), "no_bytecode": rp.get("no_bytecode", False), "how": rp.get("how", "main")}, 400)
        if st != "ok":
            print("HARNESS replay leaf %s: %s" % (st, val))
            return 2
        bad = val["r1"]["rc"] != 0 or val["r2"]["rc"] != 0 or not val["complete1"]["ok"] or val["r1"].get("table") != ref["table"] or val["r2"].get("table") != ref["table"]
        print(json.dumps({k: (v if k not in ("r1", "r2") else {x: y for x, y in v.items() if x != "table"}) for k, v in val.items()}, indent=1, default=repr))
        if bad:
            print("VIOLATION property=%s replay=%s" % (PROP, args.replay))
            return 1
        print("replay: no violation")
        return 0
    if rp.get("layer") == "d":
        with make_farm() as farm:
            ref = farm.call("checks.c19_crash:run_state", {"scratch": base, "state": {"kind": "shipped"}, "build_env": False}, 120)[1]["first"]
            st, val = farm.call("checks.c19_crash:run_crash_then_import", {"scratch": base, "state": rp["state"], "build_env": rp["build_env"], "cut": rp["cut"]}, 400)
        if st != "ok":
            print("HARNESS replay leaf %s: %s" % (st, val))
            return 2
        bad = val["r1"]["rc"] != 0 or val["r2"]["rc"] != 0 or not val["complete1"]["ok"] or val["r1"].get("table") != ref["table"] or val["r2"].get("table") != ref["table"]
        print(json.dumps(val, indent=1, default=repr))
        if bad:
            print("VIOLATION property=%s replay=%s" % (PROP, args.replay))
            return 1
        print("replay: no violation")
        return 0
    with make_farm() as farm:
        ref = farm.call("checks.c19_crash:run_state", {"scratch": base, "state": {"kind": "shipped"}, "build_env": False}, 120)[1]
        st, val = farm.call("checks.c19_crash:run_state", {"scratch": base, "state": rp["state"], "build_env": rp["build_env"], "strict_warnings": rp.get("strict_warnings", False)}, 120)
    if st != "ok":
        print("HARNESS replay leaf %s: %s" % (st, val))
        return 2
    bad = judge(val, ref["first"])
    print(json.dumps({"state": rp["state"], "build_env": rp["build_env"], "first": val["first"], "complete1": val["complete1"], "second": val["second"], "broken": bad}, indent=1))
    if bad:
        print("VIOLATION property=%s replay=%s" % (PROP, args.replay))
        return 1
    print("replay: no violation")
    return 0


def explore(args, rep, base, shipped, tier, seed):
    t_start = time.time()
    states, exhaustive = build_states(tier, seed, shipped, args.runs)
    rng = seeds.rng_for(seed, PROP, "envs")
    payloads = []
    for i, s in enumerate(states):
        # both values of the BUILD_TZ_CACHE knob: fixed states get both, prefixes draw one
        if s["kind"] != "prefix":
            for be in (False, True):
                payloads.append({"scratch": base, "state": s, "build_env": be})
            if s["kind"] in ("empty", "garbage", "missing", "shipped"):
                payloads.append({"scratch": base, "state": s, "build_env": False, "strict_warnings": True})
        else:
            payloads.append({"scratch": base, "state": s, "build_env": rng.random() < 0.3, "strict_warnings": rng.random() < 0.25})
    counts = {"import_raised": 0, "repaired": 0, "loaded_normally": 0, "rewrote_on_second_import": 0}
    fault_kinds = {}
    samples = []
    nontrivial = set()
    with make_farm() as farm:
        rebuilt_path = os.path.join(base, "rebuilt.pkl")
        st, refres = farm.call("checks.c19_crash:run_state", {"scratch": base, "state": {"kind": "shipped"}, "build_env": False, "want_reference": True}, 120)
        if st != "ok" or refres["first"]["status"] != "ok":
            rep.harness_error("reference import failed: %r" % (refres,))
            return rep.finish({"evaluations": 0, "distinct_nontrivial": 0, "rule": "", "samples": []}, [])
        ref = refres["first"]
        if os.path.realpath(refres["loaded_from"]) != os.path.realpath(refres["scratch"]):
            rep.harness_error("import resolved to %s, not the scratch copy" % refres["loaded_from"])
            return rep.finish({"evaluations": 0, "distinct_nontrivial": 0, "rule": "", "samples": []}, [])
        if refres["built_reference"] != ref["table"]:
            rep.violation(
                {"layer": "a", "state_kind": "shipped", "invariant": "I2-shipped-cache-differs-from-source", "detail": ""},
                {"layer": "a", "run": "shipped", "state": {"kind": "shipped"}, "build_env": False, "seed": seed},
                "the shipped cache does not carry the table build_tz_offsets derives from timezones.py",
            )
        # a rebuilt file (what a repaired installation has on disk) -- its prefixes are crash states too
        st, rb = farm.call("checks.c19_crash:run_state", {"scratch": base, "state": {"kind": "missing"}, "build_env": False, "save_rebuilt_to": rebuilt_path}, 120)
        rebuilt_len = os.path.getsize(rebuilt_path) if os.path.exists(rebuilt_path) else 0
        if rebuilt_len:
            rrng = seeds.rng_for(seed, PROP, "rebuilt")
            nreb = 40 if tier == "quick" else 4000
            with open(rebuilt_path, "rb") as f_:
                rebuilt = f_.read()
            # structural cut points of the file the tree itself writes: frame boundaries, and the ends of its
            # top-level pickles if it is a sequence of pickles
            structural_r = {k for k in (frame_points(rebuilt) | record_points(rebuilt)) if 1 <= k < rebuilt_len}
            if len(structural_r) > 120:
                structural_r = set(rrng.sample(sorted(structural_r), 120))
            ks = sorted({1, rebuilt_len - 1, rebuilt_len // 2} | structural_r | {rrng.randrange(1, rebuilt_len) for _ in range(nreb)})
            for k in ks:
                payloads.append({"scratch": base, "state": {"kind": "prefix_of_rebuilt", "k": k}, "build_env": rrng.random() < 0.3, "rebuilt_path": rebuilt_path})
        results = farm.map("checks.c19_crash:run_state", payloads, timeout=120)
        n_eval = 0
        first_bad = {}
        for p, (st, val) in zip(payloads, results):
            if st != "ok":
                rep.harness_error("state %r: %s %s" % (p["state"], st, str(val)[-300:]))
                continue
            n_eval += 1
            kind = val["state"]["kind"]
            fault_kinds[kind] = fault_kinds.get(kind, 0) + 1
            bad = judge(val, ref)
            repaired = val["after1"] is not None and (val["before"] is None or val["before"]["sha"] != val["after1"]["sha"])
            if val["first"]["status"] != "ok":
                counts["import_raised"] += 1
            elif repaired:
                counts["repaired"] += 1
                nontrivial.add((kind, val["state"].get("k"), val["state"].get("n"), repr(val["state"].get("obj")), val["state"].get("text"), val["build_env"]))
            else:
                counts["loaded_normally"] += 1
            if val["after1"] and val["after2"] and (val["after1"]["sha"] != val["after2"]["sha"] or val["after1"]["mtime_ns"] != val["after2"]["mtime_ns"]):
                counts["rewrote_on_second_import"] += 1
            if len(samples) < 6 and kind in ("prefix", "empty", "missing", "wrongshape") and (len(samples) < 3 or kind == "prefix"):
                samples.append({"state": val["state"], "build_env": val["build_env"], "first": val["first"]["status"], "file_before": val["before"] and val["before"]["size"], "file_after_first_import": val["after1"] and val["after1"]["size"], "file_complete_after": val["complete1"]["ok"], "second": val["second"]["status"], "broken_invariants": bad})
            if bad:
                sig = signature(val, bad)
                if val.get("strict_warnings"):
                    sig["warnings_as_errors"] = True
                key = json.dumps(sig, sort_keys=True)
                first_bad.setdefault(key, 0)
                first_bad[key] += 1
                rep.violation(sig, {"layer": "a", "run": "%s-%s" % (kind, val["state"].get("k", val["state"].get("n", ""))), "state": val["state"], "build_env": val["build_env"], "strict_warnings": val.get("strict_warnings", False), "seed": seed, "observed": {"first": val["first"], "complete1": val["complete1"], "second": val["second"]}, "broken": bad},
                              "state %r BUILD_TZ_CACHE=%s: %s" % (val["state"], val["build_env"], bad))
        # layer (c): real interpreters
        crng = seeds.rng_for(seed, PROP, "real")
        n_real = 12 if tier == "quick" else 300
        cands = [p for p in payloads if p["state"]["kind"] in ("prefix", "empty", "missing", "wrongshape", "garbage")]
        real_payloads = [dict(cands[crng.randrange(len(cands))]) for _ in range(n_real)]
        real_payloads[0] = {"scratch": base, "state": {"kind": "empty"}, "build_env": False}
        real_payloads[1] = {"scratch": base, "state": {"kind": "missing"}, "build_env": False}
        for i_, rp_ in enumerate(real_payloads):
            rp_["optimize"] = (i_ % 3 == 2)  # a third of the real interpreters run with -O (asserts compiled away)
            rp_["no_bytecode"] = (i_ % 3 == 1)  # another third with -B (sys.dont_write_bytecode)
            rp_["how"] = ["main", "thread", "hard-exit", "main"][(i_ // 3) % 4]  # first import on a worker thread / importer ends with os._exit
        real_payloads[2] = {"scratch": base, "state": {"kind": "missing"}, "build_env": False, "optimize": True}
        real_payloads[3] = {"scratch": base, "state": {"kind": "empty"}, "build_env": False, "no_bytecode": True}
        rres = farm.map("checks.c19_crash:run_real", real_payloads, timeout=300)
        n_real_ok = 0
        for p, (st, val) in zip(real_payloads, rres):
            if st != "ok":
                rep.harness_error("real import %r: %s %s" % (p["state"], st, str(val)[-300:]))
                continue
            n_real_ok += 1
            bad = []
            if val["r1"]["rc"] != 0:
                bad.append(("I1-import-raises", " ".join(val["r1"]["err"])[:120].split(":")[0]))
            elif val["r1"].get("table") != ref["table"] or val["r1"].get("probe") != ref["probe"]:
                bad.append(("I2-table-differs", "first import"))
            if val["r1"]["rc"] == 0 and not val["complete1"]["ok"]:
                bad.append(("I3-file-incomplete-after-import", val["complete1"].get("why")))
            if val["r2"]["rc"] != 0:
                bad.append(("I4-second-import-raises", " ".join(val["r2"]["err"])[:120].split(":")[0]))
            elif val["r2"].get("table") != ref["table"]:
                bad.append(("I4-second-table-differs", ""))
            if bad:
                sig = {"layer": "c", "state_kind": val["state"]["kind"], "invariant": bad[0][0], "detail": bad[0][1], "python_O": val.get("optimize", False), "python_B": val.get("no_bytecode", False), "how": val.get("how", "main")}
                rep.violation(sig, {"layer": "c", "run": "real-%s-%s" % (val["state"]["kind"], val["state"].get("k", "")), "state": val["state"], "build_env": val["build_env"], "optimize": val.get("optimize", False), "no_bytecode": val.get("no_bytecode", False), "how": val.get("how", "main"), "seed": seed, "broken": bad}, "real interpreter, state %r: %s" % (val["state"], bad))
        # layer (d): real crash in the middle of the write, then real imports
        drng = seeds.rng_for(seed, PROP, "crash")
        n_crash = 16 if tier == "quick" else 400
        crash_payloads = []
        for i in range(n_crash):
            st0 = drng.choice([{"kind": "missing"}, {"kind": "missing"}, {"kind": "empty"}, {"kind": "prefix", "k": drng.randrange(1, len(shipped))}])
            crash_payloads.append({"scratch": base, "state": st0, "build_env": drng.random() < 0.3, "cut": drng.choice([1, 2, 100, 65549, 65550, drng.randrange(1, 134000), drng.randrange(1, 134000)])})
        cres = farm.map("checks.c19_crash:run_crash_then_import", crash_payloads, timeout=400)
        n_crash_ok = 0
        crash_writes = 0
        for p, (st, val) in zip(crash_payloads, cres):
            if st != "ok":
                rep.harness_error("crash-then-import %r: %s %s" % (p["state"], st, str(val)[-300:]))
                continue
            n_crash_ok += 1
            if val["crasher_rc"] == 9:
                crash_writes += 1
            bad = []
            if val["r1"]["rc"] != 0:
                bad.append(("I1-import-raises", " ".join(val["r1"]["err"])[:120].split(":")[0]))
            elif val["r1"].get("table") != ref["table"] or val["r1"].get("probe") != ref["probe"]:
                bad.append(("I2-table-differs", "first import after the crash"))
            if val["r1"]["rc"] == 0 and not val["complete1"]["ok"]:
                bad.append(("I3-file-incomplete-after-import", val["complete1"].get("why")))
            if val["r2"]["rc"] != 0:
                bad.append(("I4-second-import-raises", " ".join(val["r2"]["err"])[:120].split(":")[0]))
            elif val["r2"].get("table") != ref["table"]:
                bad.append(("I4-second-table-differs", ""))
            if bad:
                sig = {"layer": "d", "state_kind": val["state"]["kind"], "invariant": bad[0][0], "detail": bad[0][1], "crashed_writer_left": val["left_behind"]}
                rep.violation(sig, {"layer": "d", "run": "crash-%s-%d" % (val["state"]["kind"], val["cut"]), "state": val["state"], "build_env": val["build_env"], "cut": val["cut"], "seed": seed, "broken": bad},
                              "real importer killed after %d bytes of its cache write (initial state %r, left %s), then real imports: %s" % (val["cut"], val["state"], val["left_behind"], bad))
    # layer (b)
    from checks import c19_simdisk

    b_cov = c19_simdisk.explore(args, rep, base, tier, seed, ref)
    wall = time.time() - t_start
    coverage = {
        "evaluations": n_eval + n_real_ok + n_crash_ok + b_cov["runs"],
        "distinct_nontrivial": len(nontrivial) + b_cov["distinct_traces"],
        "rule": "layer a: one evaluation = one cache-file state put at the cache path of a scratch package copy, followed by two real `import dateparser` in a fresh process; non-trivial = the first import had to repair (file content changed); distinct by (state kind, cut point, BUILD_TZ_CACHE). layer b: one evaluation = one seeded schedule of 2-3 importers over the simulated disk with faults; distinct by hash of the (importer, op, fault) trace with at least one fault or interleaved access. layer c: real interpreter imports.",
        "samples": samples + b_cov["samples"][:3],
        "exhaustive": bool(exhaustive),
        "exhaustive_scope": "every byte prefix 1..N-1 of the shipped cache (N=%d) plus missing/empty" % len(shipped) if exhaustive else "structural cut points + seeded prefixes (thorough tier enumerates all)",
        "layer_a": {"states": n_eval, "by_kind": fault_kinds, "outcomes": counts, "cache_bytes": len(shipped), "rebuilt_bytes": rebuilt_len},
        "layer_b": b_cov,
        "layer_c": {"real_interpreter_imports": n_real_ok * 2},
        "layer_d": {"real_crash_then_import_runs": n_crash_ok, "runs_in_which_the_writer_was_killed_mid_write": crash_writes},
        "fault_kinds_fired": dict(fault_kinds, **{"b:" + k: v for k, v in b_cov["faults_fired"].items()}),
        "runs_per_hour": int((n_eval + b_cov["runs"]) / max(wall, 1e-6) * 3600),
        "seeds": [seed],
        "simulated_time": "not applicable (no clock in this property); progress is measured in disk operations: %d" % b_cov["disk_ops"],
        "real_vs_stub": {"real": ["dateparser (whole package, imported for real)", "pickle", "regex", "import system", "file system (tmpfs scratch copy) in layers a/c"], "stub": ["disk in layer b (in-memory inode table)", "process scheduler in layer b (baton-passed threads)"]},
    }
    assumptions = [
        "a crash / full disk / racing reader leaves a byte prefix of the single in-place write (or of a temp file that is never renamed)",
        "bit flips inside the file are out of scope (statement lists missing / empty / cut off)",
        "the scratch package copy behaves like an installed package (same sources, cache path derived from the package location); the system temp dir is on another file system than the package, and a quarter of the states are imported with warnings turned into errors",
    ]
    return rep.finish(coverage, assumptions)
