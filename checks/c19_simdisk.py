"""C19 layer (b): importers over a simulated disk under a seeded scheduler.

2-3 importer "processes" are fresh module instances of the tree's
``timezone_parser.py`` (own globals, as separate processes would have), each on
a real thread.  File access to the cache directory goes to an in-memory inode
table (SimDisk); every disk operation is a yield point.  A seeded controller
passes a baton -- exactly one importer runs between yield points -- and may
inject at a yield point: crash (BaseException unwinds the importer; bytes
already written stay), torn write (a write is cut at a seeded byte and the
importer crashes), ENOSPC / EIO on a write.

Judged (see DESIGN 4.2):
  J1  an importer into which no fault was injected must not raise;
  J2  an un-faulted importer that only ever read single-writer ("untainted")
      inodes must end with the reference table;
  J3  once faults stop, one clean final importer succeeds with the reference
      table and the file at the cache path is complete afterwards (unless the
      inode it read was multi-writer mixed content, which is outside the
      states the property lists and is only counted);
  J4  a fault-free run in which every importer completed leaves a complete
      cache behind, before any further import could repair it.
"""
import builtins
import errno
import hashlib
import importlib.util
import io
import json
import os
import pickle
import shutil
import sys
import threading
import time

from simkit import env, seeds

PROP = "C19"


class SimCrash(BaseException):
    """The simulated process dies here."""


class Inode:
    _n = 0

    def __init__(self, owner=None):
        Inode._n += 1
        self.id = Inode._n
        self.data = bytearray()
        self.owner = owner  # importer whose single write stream the content is a prefix of
        self.mixed = False  # content is not a plain prefix of one writer's stream


class SimFile:
    def __init__(self, disk, inode, mode, imp, path):
        self.disk, self.inode, self.mode, self.imp, self.path = disk, inode, mode, imp, path
        self.pos = len(inode.data) if "a" in mode else 0
        self.closed = False
        self.fd = disk.new_fd(self)
        self.name = path

    # --- reading
    def read(self, n=-1):
        self.disk.op(self.imp, "read", self.path, n)
        self.disk.note_read(self.imp, self.inode)
        d = self.inode.data
        if n is None or n < 0:
            out = bytes(d[self.pos:])
        else:
            out = bytes(d[self.pos:self.pos + n])
        self.pos += len(out)
        return out

    def readinto(self, b):
        data = self.read(len(b))
        b[: len(data)] = data
        return len(data)

    def readline(self, limit=-1):
        self.disk.op(self.imp, "readline", self.path, limit)
        self.disk.note_read(self.imp, self.inode)
        d = self.inode.data
        i = d.find(b"\n", self.pos)
        end = len(d) if i < 0 else i + 1
        if limit is not None and limit >= 0:
            end = min(end, self.pos + limit)
        out = bytes(d[self.pos:end])
        self.pos = end
        return out

    def peek(self, n=0):
        return bytes(self.inode.data[self.pos:self.pos + max(n, 1)])

    # --- writing
    def write(self, b):
        b = bytes(b)
        fault = self.disk.op(self.imp, "write", self.path, len(b))
        if fault and fault[0] in ("torn", "enospc", "eio"):
            j = fault[1] % (len(b) + 1) if len(b) else 0
            if fault[0] == "eio":
                j = 0
            self._put(b[:j])
            if fault[0] == "torn":
                raise SimCrash("torn write after %d of %d bytes" % (j, len(b)))
            raise OSError(errno.ENOSPC if fault[0] == "enospc" else errno.EIO, os.strerror(errno.ENOSPC if fault[0] == "enospc" else errno.EIO))
        self._put(b)
        return len(b)

    def _put(self, b):
        if not b:
            return
        ino = self.inode
        if self.imp != ino.owner or self.pos != len(ino.data):
            ino.mixed = True  # second writer, hole or overwrite: no longer one stream's prefix
        if self.pos > len(ino.data):
            ino.data.extend(b"\0" * (self.pos - len(ino.data)))
        ino.data[self.pos:self.pos + len(b)] = b
        self.pos += len(b)

    def truncate(self, size=None):
        self.disk.op(self.imp, "truncate", self.path, size)
        size = self.pos if size is None else size
        del self.inode.data[size:]
        return size

    def flush(self):
        self.disk.op(self.imp, "flush", self.path, None)

    def seek(self, off, whence=0):
        if whence == 0:
            self.pos = off
        elif whence == 1:
            self.pos += off
        else:
            self.pos = len(self.inode.data) + off
        return self.pos

    def tell(self):
        return self.pos

    def fileno(self):
        return self.fd

    def readable(self):
        return "r" in self.mode or "+" in self.mode

    def writable(self):
        return any(c in self.mode for c in "wax+")

    def seekable(self):
        return True

    def close(self):
        if not self.closed:
            self.closed = True
            self.disk.fds.pop(self.fd, None)
            try:
                self.disk.op(self.imp, "close", self.path, None)
            except SimCrash:
                raise

    def __enter__(self):
        return self

    def __exit__(self, *a):
        # a crashing process does not run orderly close logic that could block
        if a[0] is not None and issubclass(a[0], SimCrash):
            self.closed = True
            self.disk.fds.pop(self.fd, None)
            return False
        self.close()
        return False


class SimDisk:
    FD_BASE = 100000

    def __init__(self, datadir, sched):
        self.datadir = os.path.realpath(datadir)
        self.paths = {}  # path -> Inode
        self.sched = sched
        self.fds = {}
        self._fd = self.FD_BASE
        self.nops = 0
        self.unsupported = None
        self.reads_mixed = {}  # imp -> True if it ever read a mixed inode
        self.read_any = {}

    def new_fd(self, f):
        self._fd += 1
        self.fds[self._fd] = f
        return self._fd

    def owns(self, path):
        if isinstance(path, int):
            return path in self.fds
        try:
            p = os.fspath(path)
        except TypeError:
            return False
        if isinstance(p, bytes):
            p = os.fsdecode(p)
        if not os.path.isabs(p):
            p = os.path.join(os.getcwd(), p)
        p = os.path.normpath(p)
        d, b = os.path.split(p)
        if d != self.datadir and os.path.realpath(d) != self.datadir:
            return False
        return not b.endswith(".py") and b not in ("date_translation_data", "__pycache__")

    def norm(self, path):
        p = os.fspath(path)
        if isinstance(p, bytes):
            p = os.fsdecode(p)
        return os.path.join(self.datadir, os.path.basename(os.path.normpath(p)))

    def op(self, imp, name, path, arg):
        self.nops += 1
        return self.sched.yield_point(imp, name, os.path.basename(str(path)), arg)

    def note_read(self, imp, inode):
        self.read_any[imp] = True
        if inode.mixed:
            self.reads_mixed[imp] = True

    # --- path level operations
    def open(self, imp, path, mode="r", *a, **k):
        if isinstance(path, int):
            f = self.fds[path]
            if "b" not in mode:
                return io.TextIOWrapper(_Raw(f), write_through=True)
            return f
        p = self.norm(path)
        self.op(imp, "open:" + mode.replace("b", ""), p, None)
        ino = self.paths.get(p)
        if "r" in mode and "+" not in mode:
            if ino is None:
                raise FileNotFoundError(errno.ENOENT, os.strerror(errno.ENOENT), p)
        elif "x" in mode:
            if ino is not None:
                raise FileExistsError(errno.EEXIST, os.strerror(errno.EEXIST), p)
            ino = self.paths[p] = Inode(owner=imp)
        elif "w" in mode:
            if ino is None:
                ino = self.paths[p] = Inode(owner=imp)
            else:
                del ino.data[:]
                # another process may still hold a writable fd on this inode and keep writing
                others = any(f.inode is ino and f.imp != imp and f.writable() and not f.closed for f in self.fds.values())
                ino.owner = imp
                ino.mixed = bool(others)
        elif "a" in mode:
            if ino is None:
                ino = self.paths[p] = Inode(owner=imp)
        if "b" not in mode:
            return io.TextIOWrapper(_Raw(SimFile(self, ino, mode, imp, p)), write_through=True)
        return SimFile(self, ino, mode, imp, p)

    def process_gone(self, imp):
        for fd, f in list(self.fds.items()):
            if f.imp == imp:
                f.closed = True
                del self.fds[fd]

    def os_open(self, imp, path, flags, mode=0o777, **k):
        p = self.norm(path)
        m = "r"
        if flags & (os.O_WRONLY | os.O_RDWR):
            m = "w" if flags & os.O_TRUNC else "r+"
            if flags & os.O_CREAT and flags & os.O_EXCL:
                m = "x"
            elif flags & os.O_CREAT and p not in self.paths:
                m = "w"
            if flags & os.O_APPEND:
                m = "a"
        f = self.open(imp, p, m + "b")
        return f.fd

    def replace(self, imp, src, dst):
        s, d = self.norm(src), self.norm(dst)
        self.op(imp, "replace", s + "->" + os.path.basename(d), None)
        if s not in self.paths:
            raise FileNotFoundError(errno.ENOENT, os.strerror(errno.ENOENT), s)
        self.paths[d] = self.paths.pop(s)

    def link(self, imp, src, dst):
        s, d = self.norm(src), self.norm(dst)
        self.op(imp, "link", s + "->" + os.path.basename(d), None)
        if d in self.paths:
            raise FileExistsError(errno.EEXIST, os.strerror(errno.EEXIST), d)
        self.paths[d] = self.paths[s]

    def remove(self, imp, path):
        p = self.norm(path)
        self.op(imp, "remove", p, None)
        if p not in self.paths:
            raise FileNotFoundError(errno.ENOENT, os.strerror(errno.ENOENT), p)
        del self.paths[p]

    def stat(self, imp, path):
        if isinstance(path, int):
            ino = self.fds[path].inode
        else:
            p = self.norm(path)
            self.op(imp, "stat", p, None)
            ino = self.paths.get(p)
            if ino is None:
                raise FileNotFoundError(errno.ENOENT, os.strerror(errno.ENOENT), p)
        return os.stat_result((0o100644, ino.id, 1, 1, 0, 0, len(ino.data), 0, 0, 0))


class _Raw(io.RawIOBase):
    def __init__(self, f):
        self.f = f

    def readable(self):
        return self.f.readable()

    def writable(self):
        return self.f.writable()

    def readinto(self, b):
        return self.f.readinto(b)

    def write(self, b):
        return self.f.write(b)

    def close(self):
        if not self.closed:
            self.f.close()
        super().close()


# --------------------------------------------------------------------------
# scheduler
# --------------------------------------------------------------------------


class Sched:
    """Baton passing: the controller grants one importer at a time."""

    def __init__(self, rng, plan, faults_enabled):
        self.rng = rng
        self.plan = plan  # replay: list of grants, or None
        self.plan_i = 0
        self.trace = []  # (imp, op, file, fault)
        self.decisions = []  # (imp, fault) in order -- the replayable schedule
        self.sems = {}
        self.ctrl = threading.Semaphore(0)
        self.state = {}  # imp -> 'ready' | 'done' | 'crashed' | 'raised'
        self.pending = {}  # imp -> (op, file, arg)
        self.grant = {}
        self.faults_enabled = faults_enabled
        self.fault_budget = 0
        self.fired = {}
        self.tmpnames = {}
        self.disk = None

    def _fname(self, name):
        if name == "dateparser_tz_cache.pkl" or "->" in name:
            parts = name.split("->")
            return "->".join(self._fname(p) if p != "dateparser_tz_cache.pkl" else "CACHE" for p in parts) if len(parts) > 1 else "CACHE"
        if name not in self.tmpnames:
            self.tmpnames[name] = "TMP%d" % len(self.tmpnames)
        return self.tmpnames[name]

    def yield_point(self, imp, op, fname, arg):
        th = threading.current_thread()
        assert getattr(th, "sim_importer", None) == imp
        self.pending[imp] = (op, self._fname(fname), arg)
        self.ctrl.release()
        self.sems[imp].acquire()
        g = self.grant.pop(imp, None)
        if g and g[0] == "crash":
            raise SimCrash("crash before %s" % op)
        return g

    def finished(self, imp, how):
        self.state[imp] = how
        if self.disk is not None:
            self.disk.process_gone(imp)
        self.pending.pop(imp, None)
        self.ctrl.release()


class Importer(threading.Thread):
    def __init__(self, imp, sched, tz_path, result, build_env=False):
        super().__init__(name="importer-%d" % imp, daemon=True)
        self.sim_importer = imp
        self.sched, self.tz_path, self.result = sched, tz_path, result
        self.build_env = build_env

    def run(self):
        imp = self.sim_importer
        self.sched.sems[imp].acquire()  # wait for first grant
        g = self.sched.grant.pop(imp, None)
        how = "done"
        try:
            if g and g[0] == "crash":
                raise SimCrash("crash at start")
            # this importer's environment: the module body reads it before its first disk
            # operation, i.e. before the next yield point, so setting it here is race free
            if self.build_env:
                os.environ["BUILD_TZ_CACHE"] = "1"
            else:
                os.environ.pop("BUILD_TZ_CACHE", None)
            name = "dateparser._c19_importer_%d_%d" % (os.getpid(), imp)
            spec = importlib.util.spec_from_file_location(name, self.tz_path)
            mod = importlib.util.module_from_spec(spec)
            spec.loader.exec_module(mod)
            from checks.c19_crash import canon_table, probe_functions

            self.result[imp] = {"status": "ok", "table": canon_table(mod), "probe": probe_functions(mod)}
        except SimCrash as e:
            how = "crashed"
            self.result[imp] = {"status": "crashed", "msg": str(e)}
        except BaseException as e:  # noqa
            how = "raised"
            self.result[imp] = {"status": "exc", "exc": type(e).__name__, "msg": str(e)[:200]}
        self.sched.finished(imp, how)


def install_patches(disk):
    """Route file access of importer threads that targets the cache directory to
    the SimDisk; everything else goes to the real functions."""
    real = {"listdir": os.listdir, "scandir": os.scandir, "kill": os.kill,
            "open": builtins.open, "io_open": io.open, "os_open": os.open, "os_close": os.close, "os_write": os.write, "os_read": os.read,
            "replace": os.replace, "rename": os.rename, "remove": os.remove, "unlink": os.unlink, "stat": os.stat, "lstat": os.lstat,
            "fstat": os.fstat, "fsync": os.fsync, "getpid": os.getpid, "link": os.link, "chmod": os.chmod, "fdopen": os.fdopen}

    def me():
        return getattr(threading.current_thread(), "sim_importer", None)

    def p_open(file, mode="r", *a, **k):
        imp = me()
        if imp is not None and disk.owns(file):
            return disk.open(imp, file, mode, *a, **k)
        return real["open"](file, mode, *a, **k)

    def p_os_open(path, flags, mode=0o777, *a, **k):
        imp = me()
        if imp is not None and disk.owns(path):
            return disk.os_open(imp, path, flags, mode)
        return real["os_open"](path, flags, mode, *a, **k)

    def p_close(fd):
        if fd in disk.fds:
            return disk.fds[fd].close()
        return real["os_close"](fd)

    def p_write(fd, data):
        if fd in disk.fds:
            return disk.fds[fd].write(data)
        return real["os_write"](fd, data)

    def p_read(fd, n):
        if fd in disk.fds:
            return disk.fds[fd].read(n)
        return real["os_read"](fd, n)

    def p_replace(src, dst, **k):
        imp = me()
        if imp is not None and (disk.owns(src) or disk.owns(dst)):
            return disk.replace(imp, src, dst)
        return real["replace"](src, dst, **k)

    def p_link(src, dst, **k):
        imp = me()
        if imp is not None and (disk.owns(src) or disk.owns(dst)):
            return disk.link(imp, src, dst)
        return real["link"](src, dst, **k)

    def p_remove(path, **k):
        imp = me()
        if imp is not None and disk.owns(path):
            return disk.remove(imp, path)
        return real["remove"](path, **k)

    def p_stat(path, *a, **k):
        imp = me()
        if imp is not None and disk.owns(path):
            return disk.stat(imp, path)
        return real["stat"](path, *a, **k)

    def p_fstat(fd):
        if fd in disk.fds:
            return disk.stat(me(), fd)
        return real["fstat"](fd)

    def p_fsync(fd):
        if fd in disk.fds:
            disk.op(me(), "fsync", disk.fds[fd].path, None)
            return None
        return real["fsync"](fd)

    def p_getpid():
        imp = me()
        if imp is not None:
            return 40000 + imp
        return real["getpid"]()

    def p_chmod(path, *a, **k):
        imp = me()
        if imp is not None and disk.owns(path):
            return None
        return real["chmod"](path, *a, **k)

    def is_datadir(path):
        try:
            p = os.fspath(path)
        except TypeError:
            return False
        if isinstance(p, bytes):
            p = os.fsdecode(p)
        return os.path.normpath(os.path.join(os.getcwd(), p)) == disk.datadir or os.path.realpath(p) == disk.datadir

    def sim_names():
        base = [fn for fn in real["listdir"](disk.datadir) if fn.endswith(".py") or fn in ("date_translation_data", "__pycache__")]
        return sorted(base + [os.path.basename(k) for k in disk.paths])

    def p_listdir(path="."):
        imp = me()
        if imp is not None and is_datadir(path):
            disk.op(imp, "listdir", "DIR", None)
            return sim_names()
        return real["listdir"](path)

    class _Entry:
        def __init__(self, d, name):
            self.name, self.path = name, os.path.join(d, name)

        def is_file(self, follow_symlinks=True):
            return self.path in disk.paths or os.path.isfile(self.path)

        def is_dir(self, follow_symlinks=True):
            return self.path not in disk.paths and os.path.isdir(self.path)

        def is_symlink(self):
            return False

        def stat(self, follow_symlinks=True):
            return os.stat(self.path)

        def inode(self):
            return 0

        def __fspath__(self):
            return self.path

    class _Scan:
        def __init__(self, entries):
            self.it = iter(entries)

        def __iter__(self):
            return self.it

        def __next__(self):
            return next(self.it)

        def __enter__(self):
            return self

        def __exit__(self, *a):
            return False

        def close(self):
            pass

    def p_scandir(path="."):
        imp = me()
        if imp is not None and is_datadir(path):
            disk.op(imp, "listdir", "DIR", None)
            d = os.fspath(path)
            return _Scan([_Entry(d, n) for n in sim_names()])
        return real["scandir"](path)

    def p_kill(pid, sig):
        imp = me()
        if imp is not None and 40000 <= pid < 40100:
            other = pid - 40000
            disk.op(imp, "kill0", "PID%d" % other, None)
            st = disk.sched.state.get(other)
            if st in ("crashed", "raised", "done") or st is None:
                raise ProcessLookupError(errno.ESRCH, os.strerror(errno.ESRCH))
            return None
        return real["kill"](pid, sig)

    # advisory locks on simulated files are not modelled: a run that uses them is not judged by
    # this layer (layers a, c and d, which use the real file system, still judge the tree)
    try:
        import fcntl

        real["flock"], real["lockf"] = fcntl.flock, fcntl.lockf

        def p_flock(fd, op):
            f = fd if isinstance(fd, int) else getattr(fd, "fileno", lambda: -1)()
            if f in disk.fds:
                disk.unsupported = "fcntl.flock"
                return None
            return real["flock"](fd, op)

        def p_lockf(fd, cmd, *a):
            f = fd if isinstance(fd, int) else getattr(fd, "fileno", lambda: -1)()
            if f in disk.fds:
                disk.unsupported = "fcntl.lockf"
                return None
            return real["lockf"](fd, cmd, *a)

        fcntl.flock, fcntl.lockf = p_flock, p_lockf
    except ImportError:
        pass
    os.listdir = p_listdir
    os.scandir = p_scandir
    os.kill = p_kill
    builtins.open = p_open
    io.open = p_open
    os.open = p_os_open
    os.close = p_close
    os.write = p_write
    os.read = p_read
    os.replace = p_replace
    os.rename = p_replace
    os.remove = p_remove
    os.unlink = p_remove
    os.stat = p_stat
    os.lstat = p_stat
    os.fstat = p_fstat
    os.fsync = p_fsync
    os.getpid = p_getpid
    os.link = p_link
    os.chmod = p_chmod
    import pathlib

    # pathlib binds io.open at import time in some versions
    if getattr(pathlib, "io", None) is io:
        pass
    return real


def file_bytes(disk, cache_name="dateparser_tz_cache.pkl"):
    ino = disk.paths.get(os.path.join(disk.datadir, cache_name))
    return None if ino is None else bytes(ino.data), ino


def run_schedule(p):
    """Leaf: one seeded schedule (or the replay of one)."""
    from checks import c19_crash

    repo = env.repo_dir()
    sys.dont_write_bytecode = False
    scratch = c19_crash._ensure_scratch(p["scratch"], repo)
    if sys.path[0] != scratch:
        sys.path.insert(0, scratch)
    cache = os.path.join(scratch, c19_crash.CACHE_REL)
    with open(os.path.join(repo, c19_crash.CACHE_REL), "rb") as f:
        shipped = f.read()
    with open(cache, "wb") as f:
        f.write(shipped)
    os.environ.pop("BUILD_TZ_CACHE", None)
    import dateparser  # noqa: F401  real package (parent of the importer module instances)
    import dateparser.timezone_parser as tp0

    # complete content a repaired installation would hold (for seeding prefixes of it)
    rng = seeds.rng_for(p["seed"], PROP, "b:%s" % p["run"])
    cfg = p["cfg"]
    sched = Sched(rng, p.get("plan"), cfg["faults"])
    datadir = os.path.dirname(cache)
    disk = SimDisk(datadir, sched)
    sched.disk = disk
    # initial file state
    init = cfg["init"]
    cpath = os.path.join(disk.datadir, "dateparser_tz_cache.pkl")
    if init["kind"] != "missing":
        ino = disk.paths[cpath] = Inode()
        data = c19_crash.state_bytes(init, shipped)
        ino.data.extend(data)
    real = install_patches(disk)
    results = {}
    tz_path = os.path.join(scratch, "dateparser", "timezone_parser.py")
    n_imp = cfg["importers"]
    start_after = cfg["start_after"]  # importer i becomes eligible after this many granted ops
    importers = {}
    faulted = set()
    granted = 0
    max_ops = cfg.get("max_ops", 400)
    plan = p.get("plan")
    decisions = []
    trace = []
    deadlock = False

    def start(i):
        sched.sems[i] = threading.Semaphore(0)
        sched.state[i] = "ready"
        sched.pending[i] = ("start", "-", None)
        be = cfg.get("build_envs")
        th = Importer(i, sched, tz_path, results, build_env=(be[i] if be and i < len(be) else cfg["build_env"]))
        importers[i] = th
        th.start()

    def step(i, fault):
        nonlocal granted
        op = sched.pending.get(i, ("start", "-", None))
        trace.append((i, op[0], op[1], fault[0] if fault else None))
        decisions.append([i, list(fault) if fault else None])
        if fault:
            faulted.add(i)
            sched.fired[fault[0]] = sched.fired.get(fault[0], 0) + 1
            sched.grant[i] = fault
        granted += 1
        sched.sems[i].release()
        if not sched.ctrl.acquire(timeout=60):
            raise RuntimeError("importer %d stalled" % i)

    try:
        for i in range(n_imp):
            if start_after[i] == 0:
                start(i)
        pi = 0
        while True:
            for i in range(n_imp):
                if i not in importers and granted >= start_after[i]:
                    start(i)
            runnable = [i for i in sorted(importers) if sched.state[i] == "ready"]
            if not runnable:
                pending_start = [i for i in range(n_imp) if i not in importers]
                if pending_start:
                    start(pending_start[0])
                    continue
                break
            if granted >= max_ops:
                # budget: let everyone finish without further faults, round robin
                i, fault = runnable[0], None
            elif plan is not None:
                if pi < len(plan):
                    i, fault = plan[pi][0], (tuple(plan[pi][1]) if plan[pi][1] else None)
                    pi += 1
                    if i not in runnable:
                        i, fault = runnable[0], None
                else:
                    i, fault = runnable[0], None
            else:
                # seeded choice: mostly keep running the same importer (long runs between
                # switches explore more than uniform noise), sometimes switch
                if trace and trace[-1][0] in runnable and rng.random() < cfg["stickiness"]:
                    i = trace[-1][0]
                else:
                    i = runnable[rng.randrange(len(runnable))]
                fault = None
                op = sched.pending.get(i, ("start", "-", None))[0]
                # faults are biased to land right after an importer created / opened something for
                # writing (in-flight state: lock files, temp files), where a uniform draw rarely falls
                prev = next((t for t in reversed(trace) if t[0] == i), None)
                hot = prev is not None and (prev[1].startswith("open:") and prev[1] != "open:r")
                if cfg["faults"] and sched.fault_budget < cfg["max_faults"] and rng.random() < (min(0.6, cfg["fault_rate"] * 6) if hot else cfg["fault_rate"]):
                    kinds = ["crash"]
                    if op == "write":
                        kinds += ["torn", "torn", "enospc", "eio"]
                    kinds = [k for k in kinds if k in cfg["faults"]]
                    if kinds:
                        k = kinds[rng.randrange(len(kinds))]
                        fault = (k, rng.randrange(1 << 20))
                        sched.fault_budget += 1
            step(i, fault)
        # faults have stopped; everyone has finished.
        data_q, ino_q = file_bytes(disk)
        quiescent = {"present": data_q is not None}
        if data_q is not None:
            try:
                pickle.loads(data_q)
                quiescent["complete"] = True
            except BaseException as e:  # noqa
                quiescent["complete"] = False
                quiescent["why"] = type(e).__name__
        # One clean importer.
        final_id = n_imp
        start(final_id)
        guard = 0
        while sched.state[final_id] == "ready":
            step(final_id, None)
            guard += 1
            if guard > 2000:
                raise RuntimeError("final importer does not terminate")
        # a further one to see that the repaired file is used as is
        data_after, ino_after = file_bytes(disk)
    finally:
        builtins.open = real["open"]
        io.open = real["io_open"]
        os.open, os.close, os.write, os.read = real["os_open"], real["os_close"], real["os_write"], real["os_read"]
        os.replace, os.rename, os.remove, os.unlink = real["replace"], real["rename"], real["remove"], real["unlink"]
        os.stat, os.lstat, os.fstat, os.fsync, os.getpid, os.link, os.chmod = real["stat"], real["lstat"], real["fstat"], real["fsync"], real["getpid"], real["link"], real["chmod"]
        os.listdir, os.scandir, os.kill = real["listdir"], real["scandir"], real["kill"]
        if "flock" in real:
            import fcntl

            fcntl.flock, fcntl.lockf = real["flock"], real["lockf"]
    complete = {"ok": False, "why": "missing"}
    if data_after is not None:
        try:
            obj = pickle.loads(data_after)
            complete = {"ok": True}
            if isinstance(obj, tuple) and len(obj) == 4:
                class _T:
                    pass

                t = _T()
                t._tz_offsets, t._search_regex, t._search_regex_ignorecase = obj[1], obj[2], obj[3]
                complete["table"] = c19_crash.canon_table(t)
        except BaseException as e:  # noqa
            complete = {"ok": False, "why": type(e).__name__}
    # real-file audit: anything the importers wrote to the real scratch dir bypassed the SimDisk
    with open(cache, "rb") as f:
        bypass = f.read() != shipped
    extra_files = sorted(fn for fn in os.listdir(datadir) if not fn.endswith(".py") and fn not in ("date_translation_data", "__pycache__", "dateparser_tz_cache.pkl"))
    return {
        "quiescent": quiescent, "run": p["run"], "cfg": cfg, "trace": trace, "decisions": decisions, "results": results, "faulted": sorted(faulted),
        "tainted": sorted(disk.reads_mixed), "final_id": final_id, "complete": complete, "final_mixed": bool(ino_after and ino_after.mixed),
        "disk_ops": disk.nops, "fired": sched.fired, "bypass": bypass or bool(extra_files) or bool(disk.unsupported), "unsupported": disk.unsupported, "extra_files": extra_files,
        "sim_files": sorted(sched._fname(os.path.basename(k)) for k in disk.paths),
        "trace_digest": hashlib.sha256(repr(trace).encode()).hexdigest()[:16],
    }


def judge(res, ref):
    bad = []
    for imp, r in sorted(res["results"].items()):
        if imp in res["faulted"]:
            continue  # a process we crashed or handed a failing disk has no obligations
        final = imp == res["final_id"]
        if r["status"] == "exc":
            bad.append(("J3-final-import-raises" if final else "J1-import-raises", r["exc"]))
        elif r["status"] == "ok" and imp not in res["tainted"]:
            if r["table"] != ref["table"] or r["probe"] != ref["probe"]:
                bad.append(("J3-final-table-differs" if final else "J2-table-differs", "importer %d" % imp))
    # J4: a fault-free run in which every importer completed must leave a complete cache behind
    # ("afterwards the cache on disk is complete again"), before any further import repairs it
    if not res["fired"] and all(r["status"] == "ok" for i, r in res["results"].items() if i != res["final_id"]):
        q = res.get("quiescent") or {}
        if not q.get("present"):
            bad.append(("J4-no-cache-after-all-imports-finished", ""))
        elif not q.get("complete"):
            bad.append(("J4-cache-incomplete-after-all-imports-finished", q.get("why")))
    fin = res["results"].get(res["final_id"])
    if fin and fin["status"] == "ok" and res["final_id"] not in res["tainted"] and not res["final_mixed"]:
        if not res["complete"]["ok"]:
            bad.append(("J3-file-incomplete-after-quiescence", res["complete"].get("why")))
        elif "table" in res["complete"] and res["complete"]["table"] != ref["table"]:
            bad.append(("J3-file-carries-wrong-table", ""))
    return bad


def draw_cfg(rng, tier):
    faults_on = rng.random() < 0.7
    kinds = [k for k in ("crash", "torn", "enospc", "eio") if rng.random() < 0.7] if faults_on else []
    n = 2 if rng.random() < 0.6 else 3
    r = rng.random()
    if r < 0.45:
        init = {"kind": "missing"}
    elif r < 0.6:
        init = {"kind": "empty"}
    elif r < 0.9:
        init = {"kind": "prefix", "k": rng.randrange(1, 134000)}
    else:
        init = {"kind": "shipped"}
    return {
        "importers": n,
        "start_after": [0] + sorted(rng.choice([0, 0, 1, 2, 3, 5, 8]) for _ in range(n - 1)),
        "faults": kinds,
        "fault_rate": rng.choice([0.02, 0.05, 0.1, 0.2]),
        "max_faults": rng.choice([1, 1, 2, 3]),
        "stickiness": rng.choice([0.0, 0.5, 0.8, 0.95]),
        "init": init,
        "build_env": rng.random() < 0.25,
        "build_envs": [rng.random() < 0.3 for _ in range(n + 1)] if rng.random() < 0.4 else None,
        "max_ops": 400,
    }


def minimise(farm, base, payload, res, ref):
    """Shrink the decision list: drop faults, then shorten the explicit plan (the
    rest of the schedule runs round-robin), keeping the same first broken invariant."""
    target = judge(res, ref)[0][0]

    def attempt(plan):
        q = dict(payload, plan=plan)
        st, val = farm.call("checks.c19_simdisk:run_schedule", q, 180)
        if st != "ok":
            return None
        b = judge(val, ref)
        if b and b[0][0] == target:
            return val
        return None

    plan = [list(d) for d in res["decisions"]]
    best = attempt(plan)
    if best is None:
        return None, None
    # drop faults one at a time
    for i in range(len(plan)):
        if plan[i][1]:
            cand = [list(d) for d in plan]
            cand[i][1] = None
            v = attempt(cand)
            if v is not None:
                plan, best = cand, v
    # shorten the tail (binary search)
    lo, hi = 0, len(plan)
    while lo < hi:
        mid = (lo + hi) // 2
        v = attempt(plan[:mid])
        if v is not None:
            hi, best = mid, v
        else:
            lo = mid + 1
    plan = plan[:hi]
    return plan, best


def explore(args, rep, base, tier, seed, ref):
    from checks.c19_crash import make_farm

    n = 120 if tier == "quick" else 8000
    if args.runs is not None:
        n = max(1, args.runs // 4)
    payloads = []
    for run in range(n):
        rng = seeds.rng_for(seed, PROP, "bcfg:%d" % run)
        payloads.append({"scratch": base, "seed": seed, "run": run, "cfg": draw_cfg(rng, tier)})
    traces = set()
    fired = {}
    samples = []
    disk_ops = 0
    tainted_runs = 0
    bypass_runs = 0
    no_disk_runs = 0
    ok_runs = 0
    with make_farm() as farm:
        results = farm.map("checks.c19_simdisk:run_schedule", payloads, timeout=180)
        reported = set()
        for p, (st, val) in zip(payloads, results):
            if st != "ok":
                rep.harness_error("simdisk run %d: %s %s" % (p["run"], st, str(val)[-400:]))
                continue
            ok_runs += 1
            disk_ops += val["disk_ops"]
            for k, v in val["fired"].items():
                fired[k] = fired.get(k, 0) + v
            if val["tainted"] or val["final_mixed"]:
                tainted_runs += 1
            if val["bypass"]:
                bypass_runs += 1
                continue  # file access bypassed the SimDisk: layer a still judges the tree
            if val["disk_ops"] == 0:
                no_disk_runs += 1
                continue
            imps = {t[0] for t in val["trace"]}
            switches = sum(1 for a, b in zip(val["trace"], val["trace"][1:]) if a[0] != b[0])
            if val["fired"] or switches > 1:
                traces.add(val["trace_digest"])
            if len(samples) < 3 and val["fired"]:
                samples.append({"layer": "b", "cfg": val["cfg"], "trace_head": val["trace"][:40], "trace_len": len(val["trace"]), "results": {k: v["status"] for k, v in val["results"].items()}, "faulted": val["faulted"], "file_complete_at_end": val["complete"]["ok"]})
            bad = judge(val, ref)
            if bad:
                sig = {"layer": "b", "invariant": bad[0][0], "detail": bad[0][1] if bad[0][0].startswith(("J1", "J3-final-import", "J3-file-incomplete")) else "", "init_kind": val["cfg"]["init"]["kind"]}
                key = json.dumps(sig, sort_keys=True)
                if key in reported:
                    rep.violation(sig, {"layer": "b", "run": "b%d" % p["run"], "seed": seed, "cfg": val["cfg"], "plan": val["decisions"]}, "simdisk run %d: %s" % (p["run"], bad))
                    continue
                reported.add(key)
                plan, best = minimise(farm, base, p, val, ref)
                if plan is None:
                    rep.harness_error("simdisk run %d: violation %s did not reproduce on replay" % (p["run"], bad))
                    continue
                rep.violation(sig, {"layer": "b", "run": "b%d" % p["run"], "seed": seed, "cfg": val["cfg"], "plan": plan, "trace": best["trace"], "results": best["results"], "broken": judge(best, ref)},
                              "simdisk run %d: %s; minimised to %d scheduled steps, %d fault(s): trace %s" % (p["run"], judge(best, ref), len(plan), sum(1 for d in plan if d[1]), best["trace"][:30]))
    if ok_runs and bypass_runs == ok_runs:
        rep.notes.append("layer b: all file access bypassed the SimDisk on this tree")
    return {"runs": ok_runs, "distinct_traces": len(traces), "faults_fired": fired, "disk_ops": disk_ops, "samples": samples, "runs_reading_multi_writer_content": tainted_runs, "runs_bypassing_simdisk": bypass_runs, "runs_without_disk_ops": no_disk_runs}


def replay(rp, rep, base, path="<given>"):
    from checks.c19_crash import make_farm

    with make_farm() as farm:
        st, refres = farm.call("checks.c19_crash:run_state", {"scratch": base, "state": {"kind": "shipped"}, "build_env": False}, 120)
        ref = refres["first"]
        run = int(str(rp["run"]).lstrip("b"))
        st, val = farm.call("checks.c19_simdisk:run_schedule", {"scratch": base, "seed": rp["seed"], "run": run, "cfg": rp["cfg"], "plan": rp["plan"]}, 180)
    if st != "ok":
        print("HARNESS replay leaf %s: %s" % (st, val))
        return 2
    bad = judge(val, ref)
    print(json.dumps({"trace": val["trace"], "results": val["results"], "complete": val["complete"], "broken": bad}, indent=1, default=repr))
    if bad:
        print("VIOLATION property=%s replay=%s" % (PROP, path))
        return 1
    print("replay: no violation")
    return 0
