"""C20 -- concurrent calls return what the same calls return sequentially.

Scheduler: simkit/simsched.py (baton-passed real threads, traced pre-emption
points, scheduler-aware locks).  Schedule space: the property's own family --
for an ordered pair (A, B): one pre-emption of A at an eligible executed line,
B runs to completion, A resumes -- plus, in the thorough tier, seeded schedules
with up to 3 switches and with 3 threads.  Every schedule runs in a fresh
process forked from a pristine template (cold) or after both calls were made
once (warm).  Oracle: the same calls made one after the other in a fresh
process, in either order.
"""
import copy
import json
import os
import time
from collections import Counter

from simkit import env, report, seeds, world
from simkit.farm import Farm

PROP = "C20"
LEVEL = "exploration"
RULE = (
    "one evaluation = one schedule of 2 (or 3) API calls on real threads under the baton scheduler, compared with the sequential outcomes (either order) in a fresh process; "
    "non-trivial = the switch landed strictly inside the pre-empted call (after its first and before its last eligible step) and the other call ran to completion in between; "
    "distinct by (A, B, warm/cold, file:line of the switch) for the single-pre-emption family and by the hash of the executed (thread, steps) segments for seeded multi-switch schedules"
)
ASSUMPTIONS = [
    "pre-emption at source-line granularity under the GIL (opcode-level tracing was tried and dropped: f_trace_opcodes segfaults CPython 3.12.1 in this set-up); no claim about free-threaded builds or the regex C extension",
    "switches are not placed inside foreign critical sections (stdlib _strptime cache lock) or the import machinery: an under-approximation that can miss, never invent, a violation",
    "frozen simulated clock (both calls see the same instant) and fixed hash seed, so step counts are reproducible and a (thread, steps) plan replays exactly",
    "the concurrent outcome pair must equal the sequential pair of one of the two orders (a residual history effect is C03's business, not C20's)",
]

CLOCK_US = 1425995415000000  # 2015-03-10 13:50:15 UTC


def P(s, **kw):
    return {"op": "parse", "s": s, "kw": kw}


def S(text, **kw):
    return {"op": "search", "text": text, "kw": kw}


CALLS = {
    "fr_num": P("02/03/2012 10:00", languages=["fr"]),
    "en_num": P("02/03/2012 10:00", languages=["en"]),
    "tl_num": P("02/03/2012 10:00", languages=["tl"]),
    "de_txt": P("3. März 2015", languages=["de"]),
    "ja_txt": P("2015年3月12日", languages=["ja"]),
    "en_rel": P("2 days ago", languages=["en"]),
    "fr_rel": P("il y a 2 jours", languages=["fr"]),
    "jalali": {"op": "jalali", "s": "1393/02/03"},
    "jalali_short": {"op": "jalali", "s": "02/03"},
    "en_skipfoo": P("foo 12 March 2015", languages=["en"], settings={"SKIP_TOKENS": ["foo"]}),
    "en_skipbar": P("foo 12 March 2015", languages=["en"], settings={"SKIP_TOKENS": ["bar"]}),
    "fr_norm_on": P("12 févr 2015", languages=["fr"], settings={"NORMALIZE": True}),
    "fr_norm_off": P("12 févr 2015", languages=["fr"], settings={"NORMALIZE": False}),
    "en_dmy": P("02/03/2012", languages=["en"], settings={"DATE_ORDER": "DMY"}),
    "en_ymd": P("02/03/12", languages=["en"], settings={"DATE_ORDER": "YMD"}),
    "en_nolocale_order": P("02/03/2012", languages=["fr"], settings={"PREFER_LOCALE_DATE_ORDER": False}),
    "en_first": P("March 2015", languages=["en"], settings={"PREFER_DAY_OF_MONTH": "first"}),
    "en_last": P("March 2015", languages=["en"], settings={"PREFER_DAY_OF_MONTH": "last"}),
    "en_strict": P("March 2015", languages=["en"], settings={"STRICT_PARSING": True}),
    "en_nonstrict": P("March 2015", languages=["en"], settings={"STRICT_PARSING": False}),
    "en_timeperiod": P("12 March 2015 10:30", languages=["en"], settings={"RETURN_TIME_AS_PERIOD": True}),
    "en_plain": P("12 March 2015 10:30", languages=["en"]),
    "search_fr": S("le 3 mars 2012 et hier", languages=["fr"]),
    "search_de": S("am 7. Juni 1999 und gestern", languages=["de"]),
    "search_en": S("on 21 October 2005 and 3 months later and yesterday", languages=["en"]),
    "fr_nolocale": P("02/03/2012", languages=["fr"], settings={"PREFER_LOCALE_DATE_ORDER": False}),
    "en_tomorrow": P("tomorrow", languages=["en"]),
    # a Settings *instance* passed by the caller (apply_settings accepts dict or Settings)
    "search_en_inst": {"op": "search", "text": "foo 12 January 2020", "kw": {"languages": ["en"], "settings_obj": {"PREFER_DATES_FROM": "past"}}},
    "en_skipfoo_jan": P("12 January 2020", languages=["en"], settings={"SKIP_TOKENS": ["foo"]}),
    "parse_en_inst": {"op": "parse", "s": "02/03/2012", "kw": {"languages": ["fr"], "settings_obj": {"PREFER_LOCALE_DATE_ORDER": False}}},
    "hijri": {"op": "hijri", "s": "01-02-1440"},
    "slot_fr_tuple": {"op": "get_date_tuple", "slot": 3, "ctor": {"languages": ["fr"]}, "s": "02/03/2020 10:00"},
    "search_en_lang": S("on 3 March 2020 and yesterday", languages=["en"], add_detected_language=True),
    "search_ru": S("с 12 января 2021 по 30 апреля 2021", languages=["ru"]),
    # a thread whose earlier call failed, then the call that is pre-empted (state a failure leaves in the thread)
    "seq_fail_fr_num": {"op": "seq", "ops": [P("12 janvier 2020", languages=["xx"]), P("02/03/2012 10:00", languages=["fr"])]},
    "seq_badtype_search": {"op": "seq", "ops": [{"op": "parse", "s": 12345, "kw": {"languages": ["en"]}}, S("on 21 October 2005 and yesterday", languages=["en"])]},
    # intruders that fail (possibly before they ever take a lock)
    "search_bad": {"op": "search", "text": 20200102, "kw": {"languages": ["ru"]}},
    "parse_badlang": P("12 March 2015", languages=["xx"]),
    "parse_badtz": P("12 March 2015 10:00", languages=["en"], settings={"TIMEZONE": "Nowhere/Land"}),
    "search_en_set": S("on 3 March 2012 and 2 days later", languages=["en"], settings={"PREFER_DAY_OF_MONTH": "first"}),
    "slot_fr_first": {"op": "get_date_data", "slot": 1, "ctor": {"languages": ["fr"], "settings": {"PREFER_DAY_OF_MONTH": "first"}}, "s": "mars 2015"},
    "slot_en_now": {"op": "get_date_data", "slot": 2, "ctor": {"languages": ["en"], "settings": {"PREFER_DAY_OF_MONTH": "first"}}, "s": "now"},
    "parse_en_first": P("02/03/2012", languages=["en"], settings={"PREFER_DAY_OF_MONTH": "first"}),
    "tl_txt": P("ika-3 ng Marso 2015", languages=["tl"]),
    "en_fmt": P("12 March", languages=["en"], date_formats=["%d %B"]),
    "en_ts": P("1425995415", languages=["en"], settings={"TIMEZONE": "Asia/Tokyo"}),
    "en_tz": P("12 March 2015 10:30 EST", languages=["en"], settings={"TO_TIMEZONE": "Asia/Kolkata"}),
    # secondary entry points that carry the settings decorator themselves
    "absparse_num": {"op": "absparse", "s": "01/02/2020"},
    "detect_de": {"op": "detect_language", "text": "am 7. Juni 1999 und gestern", "kw": {"languages": ["de", "fr"]}},
    "search_obj_fr": {"op": "search_obj", "text": "le 3 mars 2012 et hier", "kw": {"languages": ["fr"]}},
    "auto_en": P("12 March 2015"),
    "auto_fr": P("12 mars 2015"),
}

# (stratum, A, B, both directions?)
PAIRS_QUICK = [
    ("identical", "fr_num", "fr_num", False), ("identical", "en_rel", "en_rel", False), ("identical", "search_fr", "search_fr", False), ("identical", "jalali", "jalali", False),
    ("non-vocabulary-settings", "en_first", "en_last", True), ("non-vocabulary-settings", "en_strict", "en_nonstrict", True), ("non-vocabulary-settings", "en_timeperiod", "en_plain", True),
    ("language-or-order", "fr_num", "en_num", True), ("language-or-order", "fr_num", "tl_num", True), ("language-or-order", "en_num", "tl_num", True), ("language-or-order", "fr_num", "jalali", True),
    ("language-or-order", "de_txt", "ja_txt", True), ("language-or-order", "en_dmy", "en_ymd", True), ("language-or-order", "fr_rel", "en_rel", True),
    ("skip-tokens-or-normalize", "en_skipfoo", "en_skipbar", True), ("skip-tokens-or-normalize", "fr_norm_on", "fr_norm_off", True),
    ("search", "search_fr", "search_de", True), ("search", "search_en", "fr_num", True), ("search", "search_en", "en_tomorrow", True), ("search", "search_fr", "fr_rel", True),
    ("language-or-order", "fr_num", "fr_nolocale", True), ("skip-tokens-or-normalize", "en_skipfoo", "en_plain", True),
    ("search", "search_en", "search_ru", True), ("search", "search_en_lang", "search_fr", True), ("live-instance", "slot_fr_tuple", "tl_num", True),
    ("after-failure", "seq_fail_fr_num", "jalali", True), ("after-failure", "seq_badtype_search", "en_tomorrow", True),
    ("failing-intruder", "fr_num", "search_bad", True), ("failing-intruder", "fr_num", "parse_badlang", True), ("failing-intruder", "search_en", "parse_badtz", True),
    ("settings-instance", "search_en_inst", "en_skipfoo_jan", True), ("settings-instance", "parse_en_inst", "fr_num", True), ("language-or-order", "fr_num", "hijri", True),
    ("live-instance", "slot_fr_first", "parse_en_first", True),
    ("secondary-entry", "fr_num", "absparse_num", True), ("secondary-entry", "search_fr", "detect_de", True), ("secondary-entry", "search_obj_fr", "search_de", True),
]
PAIRS_MORE = [
    ("language-or-order", "en_nolocale_order", "tl_num", True), ("language-or-order", "tl_txt", "fr_num", True), ("language-or-order", "jalali_short", "en_dmy", True),
    ("language-or-order", "en_fmt", "fr_num", True), ("non-vocabulary-settings", "en_ts", "en_tz", True), ("search", "search_en_set", "slot_en_now", True),
    ("search", "search_de", "jalali", True), ("live-instance", "slot_en_now", "search_en_set", True),
    ("skip-tokens-or-normalize", "fr_norm_off", "fr_num", True), ("identical", "tl_num", "tl_num", False), ("identical", "en_skipfoo", "en_skipfoo", False),
    ("language-or-order", "fr_rel", "tl_num", True), ("search", "search_fr", "search_en", True),
]
PAIRS_WARM_ONLY = [("autodetect", "auto_en", "auto_fr", True), ("autodetect", "auto_fr", "tl_num", True)]


def with_clock(op):
    o = copy.deepcopy(op)
    o["clock_us"] = CLOCK_US
    for sub in o.get("ops", []):
        sub["clock_us"] = CLOCK_US
    return o


def exec_any(op, slots):
    """One call, or a sequence of calls made one after the other by the same thread."""
    from checks import c03_history

    if op["op"] == "seq":
        return ["seq"] + [c03_history.exec_op(sub, slots)[0] for sub in op["ops"]]
    return c03_history.exec_op(op, slots)[0]


# --------------------------------------------------------------------------
# leaf side
# --------------------------------------------------------------------------


def _setup(p):
    env.setup_path()
    import dateparser  # noqa: F401
    from checks import c03_history
    from simkit import simsched

    # locks the library creates lazily (during warm-up or during the calls) must be
    # scheduler-aware too; a SimLock is an ordinary lock outside simulated threads
    simsched.patch_locks()

    world.install(CLOCK_US)
    world.set_zone(p.get("zone", "UTC"))
    slots = {}
    calls = p["calls"]
    flat = []
    for op in calls:
        flat.extend(op["ops"] if op["op"] == "seq" else [op])
    for op in flat:
        if op["op"] in ("get_date_data", "get_date_tuple"):
            c03_history.exec_op({"op": "new_parser", "slot": op["slot"], "kw": op["ctor"], "clock_us": op["clock_us"]}, slots)
        if op["op"] in ("search", "search_obj", "detect_language"):
            import dateparser.search  # noqa: F401  (module import is not part of the race)
        if op["op"] in ("jalali", "hijri"):
            import dateparser.calendars.hijri  # noqa: F401
            import dateparser.calendars.jalali  # noqa: F401
    # a Settings *instance* the caller passes is built by the caller before the concurrent calls
    # start: constructing it (Settings.replace reads the module default) is not one of the calls
    for op in flat:
        so = (op.get("kw") or {}).get("settings_obj")
        if so is not None:
            from dateparser.conf import settings as _default_settings
            from simkit.canon import dec_value

            op["kw"]["__settings_instance__"] = _default_settings.replace(**dec_value(so))
    world.refresh(force=True)
    if p.get("warm"):
        for op in calls:
            exec_any(op, slots)
    return slots


def run_seq(p):
    """Sequential reference: calls in the given order, one after the other, same process."""
    from checks import c03_history

    slots = _setup(p)
    outs = {}
    for i in p["order"]:
        outs[i] = exec_any(p["calls"][i], slots)
    return {"outs": [outs[i] for i in range(len(p["calls"]))]}


def run_plan(p):
    """One schedule: calls on simulated threads under plan p['plan']."""
    from checks import c03_history
    from simkit import simsched

    slots = _setup(p)
    prefix = os.path.join(env.repo_dir(), "dateparser") + os.sep
    holder = {}

    def mk(i, op):
        def fn():
            holder[i] = exec_any(op, slots)
            return None
        return fn

    fns = [mk(i, op) for i, op in enumerate(p["calls"])]
    sched = simsched.Scheduler(prefix, fns, p["plan"], record=bool(p.get("record")), opcode=bool(p.get("opcode")), stall_s=20.0, raw=bool(p.get("raw")))
    status = "ok"
    try:
        sched.run()
    except simsched.Deadlock as e:
        status = "deadlock:" + str(e)
    except simsched.Stall as e:
        status = "stall:" + str(e)
    res = {
        "status": status, "outs": [holder.get(i) for i in range(len(fns))], "counts": sched.count, "switch_sites": sched.switch_sites,
        "blocks": sched.block_events, "log": sched.log, "lock_timeouts": sched.lock_timeouts,
    }
    if p.get("record"):
        res["trace"] = sched.trace
    return res


# --------------------------------------------------------------------------
# main side
# --------------------------------------------------------------------------


def make_farm():
    return Farm(preload=["checks.c20_sched", "checks.c03_history", "simkit.simsched"], extra_env={"VERIF_PREIMPORT": "checks.c20_prepatch"})


def judge(outs, seqs):
    """outs: concurrent outcomes; seqs: list of sequential outcome lists (one per order)."""
    return any(outs == s for s in seqs)


def mismatch(outs, seqs, names):
    """Which calls differ from every sequential order, and how."""
    best = min(seqs, key=lambda s: sum(a != b for a, b in zip(outs, s)))
    wrong = [i for i, (a, b) in enumerate(zip(outs, best)) if a != b]

    def cls(o):
        if o is None:
            return "no-result"
        if o[0] == "exc":
            return "exc:" + o[1]
        return "none" if o[1] is None else "value"

    return wrong, ["%s->%s" % (cls(best[i]), cls(outs[i])) for i in wrong]


def explore_pairs(farm, rep, jobs, stats, seed):
    """jobs: list of dicts(stratum, a, b, warm, budget_steps, rng).  Three phases, each one farm.map:
    sequential references + reference traces; all schedules; replays of violating schedules."""
    INF = 1 << 60
    ph1, idx = [], []
    for j, job in enumerate(jobs):
        calls = [with_clock(job.get("op_a") or CALLS[job["a"]]), with_clock(job.get("op_b") or CALLS[job["b"]])]
        if job.get("op_a") is not None:
            for ci, c in enumerate(calls):
                if "slot" in c:
                    c["slot"] = 20 + ci  # two calls never share a live parser instance
        job["calls"] = calls
        # a third of the pairs run on threads the threading module does not know about (started with
        # _thread.start_new_thread, as embedding servers do): threading.active_count() stays 1
        job["base"] = {"calls": calls, "warm": job["warm"], "zone": "UTC", "raw": j % 3 == 2}
        ph1 += [("checks.c20_sched:run_seq", dict(job["base"], order=[0, 1])), ("checks.c20_sched:run_seq", dict(job["base"], order=[1, 0])), ("checks.c20_sched:run_plan", dict(job["base"], plan=[[0, INF]], record=True))]
        idx += [(j, "ab"), (j, "ba"), (j, "trace")]
    res1 = farm.map("checks.c20_sched:dispatch", [{"fn": f, "p": p} for f, p in ph1], timeout=600)
    for (j, what), (st, val) in zip(idx, res1):
        jobs[j][what] = val if st == "ok" else None
        if st != "ok":
            rep.harness_error("reference %s of %s x %s: %s %s" % (what, jobs[j]["a"], jobs[j]["b"], st, str(val)[-300:]))
    sched_payloads, sched_idx = [], []
    for j, job in enumerate(jobs):
        if not (job.get("ab") and job.get("ba") and job.get("trace")) or job["trace"]["status"] != "ok":
            continue
        job["seqs"] = [job["ab"]["outs"], job["ba"]["outs"]]
        ref = job["trace"]
        evA = [e for e in ref["trace"] if e[0] == 0]
        job["evA"] = evA
        nA = len(evA)
        if not judge(ref["outs"], job["seqs"]):
            rep.harness_error("unswitched traced run of %s x %s differs from the sequential reference: %s vs %s" % (job["a"], job["b"], ref["outs"], job["seqs"]))
            continue
        stats["steps_in_A"] += nA
        budget_steps, rng = job["budget_steps"], job["rng"]
        if not job.get("by_line") and (budget_steps is None or budget_steps >= nA):
            ks = list(range(1, nA + 1))
            stats["pairs_fully_enumerated"] += 1
        else:
            by_line = {}
            for i, e in enumerate(evA, 1):
                by_line.setdefault((e[1], e[2]), []).append(i)
            lines = sorted(by_line)
            rng.shuffle(lines)
            ks = set(rng.choice(by_line[l]) for l in lines[:budget_steps])
            # steps the pre-empted call executes while it holds NO library lock are the windows in
            # which an intruder really runs inside it: every distinct such line is always included
            free = {}
            for i, e in enumerate(evA, 1):
                if len(e) > 4 and e[4] == 0:
                    free.setdefault((e[1], e[2]), i)
            ks |= set(list(free.values())[:150])
            stats["unlocked_lines_preempted"] += len(free)
            ks = sorted(ks)
        for k in ks:
            sched_payloads.append(dict(job["base"], plan=[[0, k], [1, INF], [0, INF]]))
            sched_idx.append((j, k))
    results = farm.map("checks.c20_sched:run_plan", sched_payloads, timeout=600, on_result=_stall_guard(rep))
    first_bad = {}
    for (j, k), r_ in zip(sched_idx, results):
        if r_ is None:
            continue  # not run: the exploration was cut short by the stall guard
        st, val = r_
        job = jobs[j]
        an, bn, warm, stratum = job["a"], job["b"], job["warm"], job["stratum"]
        if st != "ok":
            rep.harness_error("schedule %s x %s k=%d: %s %s" % (an, bn, k, st, str(val)[-300:]))
            continue
        stats["schedules"] += 1
        evA = job["evA"]
        site = evA[k - 1]
        if val["blocks"]:
            stats["blocked_on_lock"] += 1
        elif 1 < k < len(evA):
            stats["intruder_ran_inside"] += 1
        if 1 < k < len(evA):
            stats["nontrivial"].add((an, bn, warm, site[1], site[2]))
            stats["functions"].add(site[3])
        if val["status"].startswith("stall"):
            # a thread stopped emitting events without being parked or reported as blocked:
            # the harness cannot see why (a lock it does not wrap?) -- never a verdict
            stats["stalls"] += 1
            if stats["stalls"] <= 3:
                rep.harness_error("schedule %s x %s k=%d stalled: %s" % (an, bn, k, val["status"][:200]))
            continue
        if val["status"] != "ok":
            sig = {"stratum": stratum, "kind": val["status"].split(":")[0], "site_func": site[3]}
            first_bad.setdefault((j, json.dumps(sig, sort_keys=True)), [sig, k, val, site, set()])[4].add(site[3])
            stats["violating_schedules"] += 1
            continue
        if not judge(val["outs"], job["seqs"]):
            wrong, kinds = mismatch(val["outs"], job["seqs"], (an, bn))
            sig = {"stratum": stratum, "pair": "%s x %s" % (an, bn), "wrong_call": "+".join("preempted" if i == 0 else "intruder" for i in wrong), "mismatch": kinds, "warm": warm}
            stats["violating_schedules"] += 1
            first_bad.setdefault((j, json.dumps(sig, sort_keys=True)), [sig, k, val, site, set()])[4].add(site[3])
    for (j, key), (sig, k, val, site, funcs) in sorted(first_bad.items(), key=lambda x: (x[0][0], x[0][1])):
        job = jobs[j]
        an, bn = job["a"], job["b"]
        plan = [[0, k], [1, INF], [0, INF]]
        st, again = farm.call("checks.c20_sched:run_plan", dict(job["base"], plan=plan), 600)
        if st != "ok" or again["outs"] != val["outs"] or again["status"] != val["status"]:
            rep.harness_error("violation %s x %s k=%d did not replay (%s vs %s)" % (an, bn, k, val["outs"], again.get("outs") if st == "ok" else again))
            continue
        # one violation per function in which the switch can land, so that a known-finding list of functions is exact
        for fn in sorted(funcs):
            rep.violation(dict(sig, site_func=fn), {"run": "%s-%s-%s-k%d" % (an, bn, "warm" if job["warm"] else "cold", k), "seed": seed, "calls": job["calls"], "names": [an, bn], "warm": job["warm"], "raw": job["base"]["raw"], "plan": plan, "observed": val["outs"], "sequential": job["seqs"], "switch_site": site},
                          "%s pre-empted at step %d/%d (%s:%d in %s), %s run to completion, then resumed: got %s; sequential orders give %s" % (an, k, len(job["evA"]), site[1], site[2], site[3], bn, json.dumps(val["outs"])[:300], json.dumps(job["seqs"])[:300]))


GENERATED_KINDS = ("parse", "search", "jalali", "hijri", "get_date_data", "get_date_tuple")


def generated_jobs(farm, rep, seed, n, budget_steps):
    """Pairs of calls drawn from the seeded call generator of C03 (same pools, same settings variants,
    same scenario templates): both calls come from ONE generated history, so they share languages and
    differ in the settings keys the shared state is keyed by."""
    from checks import c03_history

    st, pools = farm.call("checks.c03_history:build_pools", {}, 300)
    if st != "ok":
        rep.harness_error("pool builder: %s %s" % (st, str(pools)[-300:]))
        return []
    jobs = []
    i = 0
    while len(jobs) < n and i < 20 * n:
        rng = seeds.rng_for(seed, PROP, "gen:%d" % i)
        i += 1
        h = c03_history.gen_history(rng, pools, "quick")
        ops = [o for o in h["ops"] if o["op"] in GENERATED_KINDS and not ({"settings_ref", "detect"} & set(o.get("kw") or {})) and (o["op"] not in ("get_date_data", "get_date_tuple") or o.get("ctor") is not None)]
        if len(ops) < 2:
            continue
        a, b = rng.sample(ops, 2)
        if rng.random() < 0.25:
            b = copy.deepcopy(a)  # the same call twice
        nm = "g%d" % i
        jobs.append({"stratum": "generated", "a": nm + "a", "b": nm + "b", "op_a": copy.deepcopy(a), "op_b": copy.deepcopy(b), "warm": rng.random() < 0.6, "budget_steps": budget_steps, "rng": rng, "by_line": True})
    return jobs


def _stall_guard(rep, limit=6):
    """A schedule that stalls costs its whole watchdog time; a tree on which schedules stall
    systematically (a lock the scheduler cannot see) must end as a HARNESS error within the wall
    budget, not run into the outer time limit without any verdict."""
    seen = [0]

    def on_result(i, res):
        if res and res[0] == "ok" and isinstance(res[1], dict) and str(res[1].get("status", "")).startswith("stall"):
            seen[0] += 1
            if seen[0] == limit:
                rep.harness_error("%d schedules stalled (a thread stopped emitting events without being parked or reported as blocked): exploration cut short, no verdict" % limit)
                return False
        return None

    return on_result


def dispatch(p):
    from simkit.worker import resolve

    return resolve(p["fn"])(p["p"])


def explore_seeded(farm, rep, pairs, tier, seed, stats, n):
    """Seeded schedules with up to 3 switches and with 3 threads."""
    payloads, meta = [], []
    names = sorted({x for _, a, b, _ in pairs for x in (a, b)})
    for i in range(n):
        rng = seeds.rng_for(seed, PROP, "multi:%d" % i)
        nthreads = 2 if rng.random() < 0.6 else 3
        if nthreads == 2:
            _, a, b, _ = rng.choice(pairs)
            chosen = [a, b]
        else:
            _, a, b, _ = rng.choice(pairs)
            chosen = [a, b, rng.choice(names)]
        # slots must be distinct per call
        calls = []
        for j, nm in enumerate(chosen):
            op = with_clock(CALLS[nm])
            if "slot" in op:
                op["slot"] = 10 + j
            calls.append(op)
        nsw = rng.randrange(1, 4)
        plan = []
        for _ in range(nsw):
            plan.append([rng.randrange(nthreads), rng.choice([1, 2, 5, 20, 50, 100, 200, 400, 800, 1500, rng.randrange(1, 2500)])])
        warm = rng.random() < 0.5
        payloads.append({"calls": calls, "warm": warm, "zone": "UTC", "plan": plan, "opcode": False, "raw": i % 3 == 2})  # opcode-level tracing (f_trace_opcodes) segfaults CPython 3.12.1 when tracing is switched off mid-run: line granularity only
        meta.append((chosen, warm))
    results = farm.map("checks.c20_sched:run_plan", payloads, timeout=300, on_result=_stall_guard(rep))
    results = [r_ if r_ is not None else ("skipped", "exploration cut short by the stall guard") for r_ in results]
    # sequential references: all permutations of the calls
    import itertools

    seq_cache = {}
    want, wkeys = [], []
    for pl, (chosen, warm) in zip(payloads, meta):
        ck = (tuple(chosen), warm)
        if ck in seq_cache:
            continue
        seq_cache[ck] = []
        for o in itertools.permutations(range(len(chosen))):
            want.append({"calls": pl["calls"], "warm": warm, "zone": "UTC", "order": list(o)})
            wkeys.append(ck)
    for ck, (s_, v_) in zip(wkeys, farm.map("checks.c20_sched:run_seq", want, timeout=600)):
        if s_ == "ok":
            seq_cache[ck].append(v_["outs"])
    for pl, (chosen, warm), (st, val) in zip(payloads, meta, results):
        if st == "skipped":
            continue
        if st != "ok":
            rep.harness_error("seeded schedule %s: %s %s" % (chosen, st, str(val)[-300:]))
            continue
        stats["seeded_schedules"] += 1
        ck = (tuple(chosen), warm)
        seqs = seq_cache[ck]
        switches = sum(1 for a, b in zip(val["log"], val["log"][1:]) if a[0] != b[0])
        if switches >= 1 and any(l[1] > 0 for l in val["log"][:-1]):
            stats["seeded_distinct"].add(seeds.digest([chosen, warm, val["log"]]))
        if val["status"].startswith("stall"):
            stats["stalls"] += 1
            if stats["stalls"] <= 3:
                rep.harness_error("seeded schedule %s stalled: %s" % (chosen, val["status"][:200]))
            continue
        if val["status"] != "ok":
            sig = {"stratum": "seeded-multi", "kind": val["status"].split(":")[0]}
            rep.violation(sig, {"run": "multi-%s" % "-".join(chosen), "calls": pl["calls"], "names": chosen, "warm": warm, "raw": pl["raw"], "plan": pl["plan"], "observed": val["outs"], "sequential": seqs}, "seeded schedule %s plan %s: %s" % (chosen, pl["plan"], val["status"]))
            continue
        if seqs and not judge(val["outs"], seqs):
            wrong, kinds = mismatch(val["outs"], seqs, chosen)
            sig = {"stratum": "seeded-multi", "calls": sorted(chosen), "mismatch": kinds}
            stats["violating_schedules"] += 1
            rep.violation(sig, {"run": "multi-%s-%s" % ("-".join(chosen), seeds.digest(pl["plan"])), "calls": pl["calls"], "names": chosen, "warm": warm, "raw": pl["raw"], "plan": pl["plan"], "opcode": pl["opcode"], "observed": val["outs"], "sequential": seqs, "executed": val["log"]},
                          "seeded schedule of %s (warm=%s) plan %s executed as %s: got %s, no sequential order gives that" % (chosen, warm, pl["plan"], val["log"], val["outs"]))


def main(args):
    tier = args.tier
    seed = seeds.base_seed(20)
    rep = report.Reporter(PROP, tier, seed, LEVEL)
    if args.replay:
        return replay(args, rep)
    t0 = time.time()
    stats = Counter()
    stats_sets = {"nontrivial": set(), "functions": set(), "seeded_distinct": set()}

    class St(dict):
        pass

    st = St()
    for k in ("steps_in_A", "schedules", "violating_schedules", "blocked_on_lock", "pairs_fully_enumerated", "seeded_schedules", "intruder_ran_inside", "stalls", "unlocked_lines_preempted"):
        st[k] = 0
    st.update(stats_sets)
    pairs = list(PAIRS_QUICK)
    if tier == "thorough":
        pairs += PAIRS_MORE
    ordered = []
    for stratum, a, b, both in pairs:
        ordered.append((stratum, a, b))
        if both:
            ordered.append((stratum, b, a))
    if tier == "thorough":
        for stratum, a, b, both in PAIRS_WARM_ONLY:
            ordered.append((stratum + ":warm", a, b))
            ordered.append((stratum + ":warm", b, a))
    if args.runs is not None:
        ordered = ordered[: args.runs]
    jobs = []
    for i, (stratum, a, b) in enumerate(ordered):
        rng = seeds.rng_for(seed, PROP, "pair:%d" % i)
        warm_only = stratum.endswith(":warm")
        name = stratum.split(":")[0]
        if tier == "quick":
            jobs.append({"stratum": name, "a": a, "b": b, "warm": True if warm_only else (False if name == "search" else rng.random() < 0.5), "budget_steps": 70, "rng": rng})  # searches start cold: their lazy one-time initialisation is part of the race
        else:
            # warm state: every dynamic step (complete for the stated family on that pair);
            # cold state (lazy initialisation races): every distinct source line, three occurrences each
            jobs.append({"stratum": name, "a": a, "b": b, "warm": True, "budget_steps": None if not warm_only else 600, "rng": rng})
            if not warm_only:
                for rep_i in range(3):
                    jobs.append({"stratum": name, "a": a, "b": b, "warm": False, "budget_steps": 100000, "rng": seeds.rng_for(seed, PROP, "pair:%d:cold%d" % (i, rep_i)), "by_line": True})
    n_pairs = len(ordered)
    with make_farm() as farm:
        from simkit import seamprobe

        if not seamprobe.guard(farm, rep):
            return rep.finish({"evaluations": 0, "distinct_nontrivial": 0, "rule": RULE, "samples": []}, ASSUMPTIONS)
        ngen = 30 if tier == "quick" else 1200
        if args.runs is None:
            gj = generated_jobs(farm, rep, seed, ngen, 20 if tier == "quick" else 80)
            if os.environ.get("VERIF_C20_ONLY_GENERATED"):
                jobs = []  # (experiments only)
            st["generated_pairs"] = len(gj)
            jobs += gj
        explore_pairs(farm, rep, jobs, st, seed)
        nseeded = 150 if tier == "quick" else 6000
        explore_seeded(farm, rep, pairs, tier, seed, st, nseeded)
    wall = time.time() - t0
    total = st["schedules"] + st["seeded_schedules"]
    coverage = {
        "evaluations": total,
        "distinct_nontrivial": len(st["nontrivial"]) + len(st["seeded_distinct"]),
        "rule": RULE,
        "samples": [{"pair": list(x[:2]), "warm": x[2], "switch_at": "%s:%d" % (x[3], x[4])} for x in sorted(st["nontrivial"])[:5]],
        "ordered_pairs": n_pairs,
        "generated_pairs_from_the_history_generator": st.get("generated_pairs", 0),
        "single_preemption_schedules": st["schedules"],
        "seeded_multi_switch_schedules": st["seeded_schedules"],
        "distinct_seeded_interleavings": len(st["seeded_distinct"]),
        "eligible_steps_in_preempted_calls": st["steps_in_A"],
        "distinct_functions_with_a_switch": len(st["functions"]),
        "pairs_with_every_step_enumerated": st["pairs_fully_enumerated"],
        "exhaustive": False,
        "exhaustive_scope": "thorough tier: every dynamic eligible step of the pre-empted call for each listed ordered pair from the warm state, plus every distinct source line (3 occurrences) from the cold state; quick tier: up to 70 distinct source lines per ordered pair",
        "schedules_in_which_the_intruder_ran_inside_the_preempted_call": st["intruder_ran_inside"],
        "violating_schedules": st["violating_schedules"],
        "fault_kinds_fired": {"preemptions": st["schedules"], "lock_contention_resolved_by_scheduler": st["blocked_on_lock"]},
        "schedules_per_hour": int(total / max(wall, 1e-6) * 3600),
        "seeds": [seed],
        "simulated_time": "frozen at 2015-03-10 13:50:15 UTC for every call",
        "real_vs_stub": {"real": ["dateparser (all of it)", "real OS threads", "regex", "pytz", "tzlocal", "dateutil"], "stub": ["thread scheduler (baton passing at traced line events)", "threading.Lock/RLock created by the library (scheduler-aware wrappers)", "system clock (frozen)"]},
    }
    return rep.finish(coverage, ASSUMPTIONS)


def replay(args, rep):
    with open(args.replay) as f:
        rp = json.load(f)
    with make_farm() as farm:
        base = {"calls": rp["calls"], "warm": rp["warm"], "zone": "UTC"}
        import itertools

        perms = list(itertools.permutations(range(len(rp["calls"]))))
        rs = farm.map("checks.c20_sched:run_seq", [dict(base, order=list(o)) for o in perms], timeout=300)
        seqs = [v["outs"] for s, v in rs if s == "ok"]
        st, val = farm.call("checks.c20_sched:run_plan", dict(base, plan=rp["plan"], opcode=rp.get("opcode", False), raw=rp.get("raw", False)), 300)
    if st != "ok" or not seqs:
        print("HARNESS replay leaf failed: %s" % (val,))
        return 2
    print(json.dumps({"status": val["status"], "concurrent": val["outs"], "sequential_orders": seqs, "executed_segments": val["log"], "switch_sites": val["switch_sites"]}, indent=1, default=repr))
    if val["status"] != "ok" or not judge(val["outs"], seqs):
        print("VIOLATION property=%s replay=%s" % (PROP, args.replay))
        return 1
    print("replay: no violation")
    return 0
